#!/usr/bin/env python3
"""dev helper: decode bytes with vdrv and show crash details: tools/disone.py cpu hexbytes [addr]"""
import sys
sys.path.insert(0, '/verif')
from vf import driver, build
a = build.build('san')
v = driver.Vdrv(a['vdrv'], timeout_cpu=5)
cpu, hx = sys.argv[1], sys.argv[2]
addr = int(sys.argv[3], 0) if len(sys.argv) > 3 else 0x1000
try:
    print(v.dis(cpu, addr, bytes.fromhex(hx)))
except driver.Died as e:
    import re
    print(e.why, e.san)
    for l in e.stderr.split('\n'):
        if 'runtime error' in l or re.search(r'#\d+ .* /repo/', l) or 'is located' in l or 'ERROR' in l:
            print(l)
