#!/usr/bin/env python3
"""Regenerates /verif/MANIFEST.json from the table below (single source of truth)."""
import json, os, subprocess
HERE = os.path.dirname(os.path.dirname(os.path.abspath(__file__)))
props = [json.loads(l) for l in open(os.path.join(HERE, "properties.jsonl"))]
hook_commits = ["9fea0ac"]

CHECKS = {
 "C15": dict(engine="vdrv", design="3/C15",
   technique="runtime monitoring: in the ASan/UBSan in-process driver a freshly constructed simulator executes one step per leading 16-bit pattern x operand tail x register/PC state x display mode; the monitor records worker deaths (sanitizer report or signal, keyed cpu/kind/function), CPU-time timeouts, exit() without break_io, and any difference in return code, registers, register dump, memory diff or console text between a step, its repetition in the same process and a third execution on a fresh process",
   text="Exploration, exhaustive over the leading 16 bits in the thorough tier: 15 simulators (16 with the mips32 alias) x all 65536 leading patterns x 4 combinations of tail/state/display (4.1M steps); quick: a stratified seeded sample (every first byte and every second byte of every simulator at least once, 30k steps).",
   note="13 known findings (msp430 ram_read8(reg[ea]) overflow and exit() inside a step, avr8 push/pop stack indexing, 8008 stack underflow, tms1000 bounds, mips32 div by zero, 8008/f100_l static stop flag non-determinism). run() return value, PC-after-step versus disassembler length and writes above the architectural space are not judged; after 2 deaths in an (opcode class, combo) the rest of that class in the chunk is skipped and counted."),
 "C16": dict(engine="cli", design="3/C16",
   technique="runtime monitoring: the real ASan/UBSan naken_asm binary, one input per resource-limited process (RLIMIT_CPU, file-size limit, RSS cap); events: sanitizer report, signal, exit status outside {0,1}, failure without diagnostic, RSS cap, CPU-time limit on inputs that cannot legitimately request bulk output",
   text="Exploration: enumerated structured blow-ups (token/identifier/number/string/macro-argument lengths at buffer boundaries, operand counts x 68 CPUs, nesting depths of macros/defines/includes/conditionals/parentheses, recursion through defines and includes, extreme addresses, every -type x flags, odd command lines), seeded token-level mutation (18 operators) of samples/ and corpus lines for all 68 CPUs, and unstructured bytes; quick 4954 cases, thorough 67945.",
   note="Keys are sanitizer kind/function/file or hang/cpu, so a second defect in an already-listed function is masked. Hang verdict withheld for inputs with large range/count literals. Seeded change C16_1 (off-by-one next to an already-reported tokens.cpp bounds site) is missed because UBSan halts at the first, already-known report."),
 "C17": dict(engine="cli", design="3/C17",
   technique="runtime monitoring: the real ASan/UBSan naken_util binary, one file+command line+scripted session per resource-limited process; events as C16; hang attribution by reloading the file alone (load hang versus command hang)",
   text="Exploration: object files written by the sanitizer-built naken_asm (hex, srec, elf, wdc, uf2, amiga, macho, bin) plus TI-TXT, field-aware mutation of every header/record length, count, offset, address and checksum at boundary values, truncation and garbage x cpu flags x -disasm / -disasm_range / option sessions / enumerated one-command sessions x 7 CPUs / seeded random command sessions.",
   note="run/call/-run are never issued (simulated programs may legitimately not terminate). Hang verdict withheld when the image or a requested range exceeds 64 KiB. Keys per function / per command class and cpu."),
 "C09": dict(engine="vdrv+cli", design="3/C09",
   technique="runtime monitoring: metamorphic monitor: each generated program tree is rendered once with the abstractions (.define/#define, equ, .macro with parameters, nested calls, .include, .repeat) and once hand-expanded; both are assembled by the real assembler (in-process ASan/UBSan build, plus a real-CLI/Intel-HEX sample with real include files) and images and label addresses compared; .repeat oracle = byte replication of the first iteration",
   text="Exploration: 6000 (quick) / 50000 (thorough) seeded programs over 6 CPUs (msp430, z80, mips, avr8, 6502, arm) with define/equ/macro (0..12 parameters, 4 argument kinds, nesting depth <= 8) / include (depth <= 4) / repeat (n <= 50, also inside macros and include files) structure; every feature class is required to be observed.",
   note="Parameter names never equal another word of the same body; no labels inside macro or repeat bodies, no nested .repeat; definitions precede code. Pairs whose hand-expanded side is rejected are not compared. One known finding: .include inside a macro body is assembled after the rest of the expansion."),
 "C14": dict(engine="vdrv+cli", design="3/C14",
   technique="runtime monitoring: reference-model oracle: an independent Python MSP430 executor written from the family user's guide is compared with (a) single steps of the sanitizer-built simulator through the in-process driver from states tailored per opcode to carry/overflow/BCD boundaries (registers, SR flag by flag, memory diff, cycle count), and (b) naken_asm + naken_util -run on generated routines including break_io exit status",
   text="Exploration, exhaustive over the first instruction word in the thorough tier: all 65536 first words x 48 states (2.05M steps) and 3000 generated routines; quick: a stratified sample covering every operation/size/source register/As/Ad combination (75k steps) and 150 routines. Facets the guide leaves undefined or that are uncertain are masked, not guessed.",
   note="11 known findings keyed operation/size/facet (SUB/CMP .b carry, SUB/CMP V, XOR.B V, SXT C, RETI no-op, symbolic-destination cycle count, byte @Rn reading the register file - ASan). Byte @Rn/@Rn+ sources are excluded apart from a small sample because each crashes the worker. The reference is only as good as the reading of the guide."),
 "C20": dict(engine="cli", design="3/C20",
   technique="runtime monitoring: conservation/placement monitor over the real naken_asm CLI (ASan/UBSan build) on generated link jobs: Python writers build ELF32 relocatable objects and ar archives whose functions carry unique marker words, R_MIPS_26 call relocations and a known call graph; the written image and listing symbols are compared with the generator's knowledge",
   text="Exploration: 304 (quick) / 15200 (thorough) seeded link jobs over archive and object shapes (1..6 sections, 1..40+ symbols, local/global, with/without archive index, > 256 symbols) x reference patterns (0..all functions, transitive calls, duplicate names): each referenced function's marker occurs exactly once at its symbol's address, non-call words equal the object's, every jal field equals the target's final address >> 2, unreferenced functions are absent, and reject jobs (unresolved callee, ELF64, foreign e_machine, byte-order mismatch) must not exit 0.",
   note="9 known findings: the bare .o path (S17: size/offset swapped in Linker::get_code_from_symbol), big-endian objects parsed as little-endian (crash), foreign-machine / wrong-byte-order objects accepted. R_MIPS_26 against named function symbols only; addresses below 2^28."),
 "C10": dict(engine="vdrv+cli", design="3/C10",
   technique="runtime monitoring: reference-model oracle (Python interpreter of the documented .if condition grammar and of the .if/.ifdef/.ifndef/.else/.endif block structure) predicting the exact marker-byte sequence of marker-instrumented programs assembled by the ASan/UBSan library in the in-process driver; malformed conditionals and a sample of valid programs run through the real CLI for exit status and bin output",
   text="Exploration: 29244 enumerated condition expressions (up to 3 operators over defined(), !, ==, <, >, <=, >=, &&, ||, parentheses, numbers, defines, labels) and 4116 enumerated nestings to depth 3 with untaken bodies holding labels, defines, macro definitions, junk and directive names in comments/strings, plus seeded random conditions and trees to depth 10; trailing .ifdef probes detect symbol/define/macro leakage from skipped regions; 81 malformed cases must not exit 0.",
   note="20 known findings (S5, S21, S23, S31 and three newly characterised evaluator/skip-loop defects) with instance catalogues over the enumerated domain. Unparenthesised comparison chains, negative numbers, arithmetic, non-numeric defines are outside the documented grammar and not generated; `!!x` excluded."),
 "C12": dict(engine="cli", design="3/C12",
   technique="runtime monitoring: consistency monitor over the real CLI's (exit status, diagnostic lines, output file) triple under single-point source corruption with a stale output file planted before each run, in the ASan/UBSan build",
   text="Exploration: valid programs in 6 shapes (plain, rich, in-macro, in-include, in-conditional, in-repeat) x 18 certainly-erroneous corruption classes + 2 operand-garbling classes x 23 insertion slots x -type hex/bin/elf; rules: exit 0 with an Error diagnostic, exit 0 without output, failure leaving (stale) output, failure without diagnostic, signal/sanitizer report, certainly-erroneous input accepted.",
   note="46 known findings sharing about four root causes (result of the nested assemble() in parse_ifdef_ignore discarded; duplicate .define / `.if (` diagnosed but exit 0; unterminated .if / stray .endif accepted silently; avr8/propeller2 operand-array overruns). CPU is not part of the key. ELF well-formedness is left to C03."),
 "C13": dict(engine="cli+vdrv", design="3/C13",
   technique="runtime monitoring: differential runs of the real CLI across repetition, reporting options (-l, -q, -dump_symbols, -dump_macros), output name/directory, output type (decoded images), ASan malloc_fill_byte 0x00 vs 0xA5, and in-process history (the in-process driver assembling unrelated programs of other CPUs first); all images must be identical",
   text="Exploration: ~700 (quick) / 4600 (thorough) generated programs (single instructions of 47 CPUs, multi-statement programs with macros/includes/conditionals/repeat, scoped and shadowed labels, data runs crossing 64 KiB boundaries at non-16-aligned distances) x 15 configurations; hex files compared byte-for-byte, srec/bin/elf as decoded images, in-process images after 0..3 unrelated assemblies and on immediate repetition compared with the fresh-process image.",
   note="Compiler-level initialisation regimes (-ftrivial-auto-var-init) and the interactive `asm` command of naken_util (which cannot assemble at all, see C19 finding S22) are not exercised. ELF comparisons skipped where C03's ELF findings interfere."),
 "C19": dict(engine="cli", design="3/C19",
   technique="runtime monitoring: shadow-memory monitor over scripted naken_util sessions (ASan/UBSan binary): a Python reference interpreter applies the same write/print/disasm/set commands to a {byte address -> value} map under the documented addressing rules and every printed row is compared",
   text="Exploration: 400 (quick) / 20000 (thorough) sessions of 6..40 commands on 12 CPUs covering bytes-per-address 1/2/4, both byte orders; decimal/0x/..h spellings, a-b ranges, addresses at 0, 64 KiB page ends and crossings, 24-bit boundaries, the 2^31 crossing and 0xffff0000; every write followed by a print of its neighbourhood and a final sweep over all touched regions (a write must not change an address it did not name); first disasm row and the simulator's current-instruction row after set pc + step compared with the shadow; sessions starting from naken_asm-written hex/bin files with -address/-set_pc.",
   note="Known findings: interactive `asm` blocks never assemble (S22); `..h` number detection scans the rest of the line. Hex >= 2^31 (signed accumulation, UBSan), -address >= 2^31 (rejected by the tool), 68000 disasm (non-terminating, C08 finding) and symbol-name arguments are excluded."),
 "C11": dict(engine="vdrv+cli", design="3/C11",
   technique="runtime monitoring: reference-model oracle (Python scope resolver: one global table plus one per .scope/.func, local first then global) compared with the words the real assembler emits for `.dc32 name`, the ELF .symtab of the real CLI and the listing symbol table, in the ASan/UBSan build",
   text="Exploration: seeded programs with 1..5000 labels (up to 6 symbol pools, entries ending at 32767/32768/32769), 0..200 .scope/.func blocks, shadowed names, forward/backward references inside and outside scopes, .set chains and .export; every reference's emitted value is compared with the resolver; duplicate definitions and references to foreign-scope/undefined names must be rejected; exported symbols must appear in .symtab with their addresses.",
   note="ELF facts judged only on byte-addressed CPUs; nested scopes, .export of local names, names > 254 characters are outside the domain. Multi-pool programs go through the CLI/hex path because symbol enumeration itself is defective there (known finding S12)."),
 "C18": dict(engine="cli+vdrv", design="3/C18",
   technique="runtime monitoring: listing monitor: the -l listing written by the real CLI is parsed line by line and every instruction line, data-section row, symbol row and low/high summary is compared with the hex and bin output of the same run; instruction text is compared with the in-process disassembly of exactly the bytes shown",
   text="Exploration: generated multi-construct programs (multi-word instructions, data between code, several .org segments, macros, .repeat, .include, > 762 symbols) for the 49 corpus CPUs; per line the opcode column must start with the CPU family's rendering of the output bytes at that address (hex-digit-wise, whitespace-insensitive), every written byte must be covered by an instruction line or a dump row, symbol values and the address summary must match the image.",
   note="cpu->rendering-family table is static and was learnt on the unchanged tree; re-spacing or widening columns does not trip it. CPUs without a tests/comparison file are not driven. ps2_ee_vu1 text facet skipped (two disassemblies per line)."),
 "C01": dict(engine="vdrv", design="3/C01",
   technique="runtime monitoring: round-trip monitor (real assembler -> real disassembler walk -> real assembler) over the instruction corpus with operand substitution in the ASan/UBSan build, plus reference MSP430/RV32I encoders as an independent oracle",
   text="Exploration: every tests/comparison instruction form of 49 CPUs x boundary operand substitution x load addresses is assembled, the disassembler is walked over exactly the emitted bytes (length tiling) and the rendering re-assembled at the same address (byte equality); MSP430 core and RV32I forms are also compared with encoders written from the manuals. Violations present in the unchanged tree are catalogued per (cpu, mnemonic, kind) with instance lists; anything outside the catalogue is reported.",
   note="Renderings the assembler rejects are vacuous (counted per CPU). Operand space covered at boundary values only. CPUs without a tests/comparison file are covered from the binary side by C07."),
 "C02": dict(engine="vdrv", design="3/C02",
   technique="runtime monitoring: online invariant at the label-binding hook (H1, NAKEN_ASM_VERIF: pass-2 location counter == address recorded by pass 1) plus black-box marker check of the image at every label's symbol address",
   text="Exploration: every corpus form whose operand can be a label x forward/backward reference x label value class x -optimize on/off, plus seeded mixed programs; both the hook invariant and the marker-at-symbol-address oracle are evaluated for every accepted program in the sanitizer build.",
   note="Labels before instructions are only generated at aligned locations; conditionals/macros depending on later symbols are outside the statement and never generated."),
 "C03": dict(engine="cli", design="3/C03",
   technique="runtime monitoring: format decoders written from the specifications (ihex, srec, elf, wdc, uf2, bin) applied to files the real CLI writes for images known by construction, plus naken_util read-back",
   text="Exploration: seeded segment layouts (1..6 segments, 64 KiB crossings, 24/32-bit addresses, bytes-per-address 1/2/4/8, both byte orders) x 6 output types; every record's length/checksum/address is validated and the decoded address->byte map compared with the image; files are loaded back by the real naken_util and segment edges printed.",
   note="amiga/macho are not address-carrying round trips and are not judged here. Range formats capped at 64 MiB span."),
 "C05": dict(engine="vdrv+cli", design="3/C05",
   technique="runtime monitoring: reference-model oracle (directive -> image model written from the documentation) compared byte-for-byte with the image the real assembler builds under ASan/UBSan, and with decoded hex/bin files from the real CLI",
   text="Exploration: seeded random directive programs (5..40 directives incl. backwards/overlapping .org, all data widths at range limits, strings with escapes, .resb/.resw/.align/.data_fill/.binfile, endian switches, labels and $) on CPUs with 1/2/4/8 bytes per address and both byte orders, plus an enumerated boundary suite.",
   note="Trusts vf/ref/directives.py as the reading of the documentation; the decimal literal -9223372036854775808 is outside the domain."),
 "C06": dict(engine="vdrv", design="3/C06",
   technique="runtime monitoring: injectivity (pigeonhole) monitor over the real assembler's output: for one instruction form at one address, distinct accepted operand values must give distinct encodings unless they are signed/unsigned spellings of one field value",
   text="Exploration: every form with a numeric operand from tests/comparison/*.txt plus, for all 68 CPUs, one representative per (mnemonic, operand shape) harvested from the real disassembler's 16-bit sweep (two tail fillings) that the assembler accepts, x ~450 probe values (0..9, +-2^k, +-2^k+-1/2, address-relative distances) assembled in the sanitizer build; accepted values grouped by emitted bytes; collisions keyed (cpu, mnemonic, operand index, wrap modulus). Quick and thorough cover the same forms. The collisions of the unchanged tree (2400 keys) are catalogued per form instance; a collision on any other form or with another modulus is reported.",
   note="Needs no knowledge of field widths; values outside [-2^31, 2^32) are not probed (the global 64->32-bit narrowing is one separate finding). A form that rejects nothing or accepts < 2 values is non-decisive and counted as such."),
 "C07": dict(engine="vdrv", design="3/C07",
   technique="runtime monitoring: round-trip monitor from the binary side (real disassembler -> real assembler at the same address -> real disassembler) over the exhaustive 16-bit leading-pattern sweep in the ASan/UBSan build",
   text="Exploration, exhaustive over the leading 16 bits in the thorough tier: every decodable pattern of every CPU (two tail fillings) is rendered, re-assembled at the same address and decoded again; a changed mnemonic or operand after numeric normalisation (signed/unsigned spellings of one 8/16/32/64-bit value are equal) is a violation unless the new text is an alias that assembles to the same bytes. Both tiers add 24 operand-byte boundary fillings (0x0f, 0x10, 0x7f, 0x80, 0xff ... in the first or second byte after the pattern) for one representative per (cpu, mnemonic, operand shape). quick: representatives plus a seeded sample.",
   note="W' != W alone is not a violation (don't-care bits). Renderings the assembler rejects are vacuous."),
 "C04": dict(engine="vdrv+cli", design="3/C04",
   technique="runtime monitoring: reference-model oracle (64-bit evaluator) over .dc64 expressions assembled by the sanitizer build",
   text="Exploration: every operator sequence up to 3 (quick) / 4 (thorough) operators, unary and parenthesis placements, all literal spellings, valueless expressions, plus seeded random trees; the real evaluator's output bytes are compared with an independent reference evaluator under ASan/UBSan. Held-on-what-was-run, not a proof.",
   note="Trusts vf/ref/expr.py as the reading of the statement; '/' '%' truncate toward zero; shifts outside 0..63, >> of negatives and INT64_MIN/-1 are masked."),
 "C08": dict(engine="vdrv+cli", design="3/C08",
   technique="runtime monitoring: exhaustive 16-bit decode sweep under ASan/UBSan with exact-size text buffer, locality re-decodes, range-tiling monitor against the decoder walk, CLI disassembly runs under CPU-time watchdog",
   text="Exploration, exhaustive over the leading 16 bits: all 65536 leading patterns x tail fillings per CPU are decoded by the real single-instruction disassemblers in the sanitizer build; termination, NUL-termination inside the 128-byte buffer, length bounds and independence from following bytes are asserted per decode; address tiling of the real disasm_range output is compared with the decoder walk; naken_util -disasm runs on generated files, and whole-image coverage of `naken_util -bin -address A -disasm` against the decoder walk for images ending on/around 64 KiB page boundaries. Violations present in the unchanged tree are catalogued per input in known-findings.txt; any input outside the catalogue is reported.",
   note="Maximum instruction length is an over-approximation (16 bytes, unbounded for java/webasm/dotnet); tms1000/tms1100 range output is only checked for termination; range ends near 2^32 not explored."),
}

# checks that exist but are not claimed yet (reason shown in not_applicable)
HOLD = {}

PENDING_REASON = "check not built yet in this round of work; design exists in DESIGN.md section 3"

def main():
    checks, na = [], []
    for p in props:
        pid = p["id"]
        c = CHECKS.get(pid)
        if pid in HOLD:
            na.append({"property_id": pid, "reason": HOLD[pid]})
            continue
        if c is None:
            na.append({"property_id": pid, "reason": PENDING_REASON})
            continue
        checks.append({
            "property_id": pid,
            "quick_cmd": "./check %s --tier quick" % pid,
            "thorough_cmd": "./check %s --tier thorough" % pid,
            "evidence_file": "evidence/%s.json" % pid,
            "replay_cmd_template": "./check %s --replay {path}" % pid,
            "engine": c["engine"],
            "level_claimed": {"category": "exploration", "text": c["text"], "design_ref": "DESIGN.md " + c["design"]},
            "level_note": c["note"],
            "technique": c["technique"],
        })
    m = {
        "version": 1,
        "setup_cmd": "python3 vf/build.py san",
        "hooks": {
            "guard": "NAKEN_ASM_VERIF",
            "enable": "vf/build.py compiles /repo's working tree out-of-tree into /verif/.work/build/<variant>/ with -DNAKEN_ASM_VERIF",
            "baseline_off_cmd": "cd /repo && ./configure && make && make tests",
            "source_commits": hook_commits,
            "add_only": True,
        },
        "engines": [
            {"name": "vdrv", "path": "harness/vdrv.cpp", "kind_free_text": "in-process driver linked against the ASan/UBSan build of the library; one request per case, crash attribution",
             "serves_properties": sorted(k for k, v in CHECKS.items() if "vdrv" in v["engine"] and k not in HOLD)},
            {"name": "cli", "path": "vf/proc.py", "kind_free_text": "real naken_asm / naken_util sanitizer binaries, one case per process under CPU/RSS/file-size limits",
             "serves_properties": sorted(k for k, v in CHECKS.items() if "cli" in v["engine"] and k not in HOLD)},
            {"name": "ref", "path": "vf/ref", "kind_free_text": "reference models and format decoders written from the documentation/specifications",
             "serves_properties": sorted(k for k in CHECKS if k not in HOLD)},
        ],
        "checks": checks,
        "not_applicable": na,
        "notes": "Technique family: runtime monitoring and sanitizers. See DESIGN.md. known-findings.txt lists open findings and fixed defects.",
    }
    json.dump(m, open(os.path.join(HERE, "MANIFEST.json"), "w"), indent=1)
    print("checks=%d not_applicable=%d" % (len(checks), len(na)))

main()
