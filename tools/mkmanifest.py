#!/usr/bin/env python3
"""Regenerates /verif/MANIFEST.json from the table below (single source of truth)."""
import json, os, subprocess
HERE = os.path.dirname(os.path.dirname(os.path.abspath(__file__)))
props = [json.loads(l) for l in open(os.path.join(HERE, "properties.jsonl"))]
hook_commits = ["9fea0ac"]

CHECKS = {
 "C04": dict(engine="vdrv+cli", design="3/C04",
   technique="runtime monitoring: reference-model oracle (64-bit evaluator) over .dc64 expressions assembled by the sanitizer build",
   text="Exploration: every operator sequence up to 3 (quick) / 4 (thorough) operators, unary and parenthesis placements, all literal spellings, valueless expressions, plus seeded random trees; the real evaluator's output bytes are compared with an independent reference evaluator under ASan/UBSan. Held-on-what-was-run, not a proof.",
   note="Trusts vf/ref/expr.py as the reading of the statement; '/' '%' truncate toward zero; shifts outside 0..63, >> of negatives and INT64_MIN/-1 are masked."),
 "C08": dict(engine="vdrv+cli", design="3/C08",
   technique="runtime monitoring: exhaustive 16-bit decode sweep under ASan/UBSan with exact-size text buffer, locality re-decodes, range-tiling monitor against the decoder walk, CLI disassembly runs under CPU-time watchdog",
   text="Exploration, exhaustive over the leading 16 bits: all 65536 leading patterns x tail fillings per CPU are decoded by the real single-instruction disassemblers in the sanitizer build; termination, NUL-termination inside the 128-byte buffer, length bounds and independence from following bytes are asserted per decode; address tiling of the real disasm_range output is compared with the decoder walk; naken_util -disasm runs on generated files. Violations present in the unchanged tree are catalogued per input in known-findings.txt; any input outside the catalogue is reported.",
   note="Maximum instruction length is an over-approximation (16 bytes, unbounded for java/webasm/dotnet); tms1000/tms1100 range output is only checked for termination; range ends near 2^32 not explored."),
}

PENDING_REASON = "check not built yet in this round of work; design exists in DESIGN.md section 3"

def main():
    checks, na = [], []
    for p in props:
        pid = p["id"]
        c = CHECKS.get(pid)
        if c is None:
            na.append({"property_id": pid, "reason": PENDING_REASON})
            continue
        checks.append({
            "property_id": pid,
            "quick_cmd": "./check %s --tier quick" % pid,
            "thorough_cmd": "./check %s --tier thorough" % pid,
            "evidence_file": "evidence/%s.json" % pid,
            "replay_cmd_template": "./check %s --replay {path}" % pid,
            "engine": c["engine"],
            "level_claimed": {"category": "exploration", "text": c["text"], "design_ref": "DESIGN.md " + c["design"]},
            "level_note": c["note"],
            "technique": c["technique"],
        })
    m = {
        "version": 1,
        "setup_cmd": "python3 vf/build.py san",
        "hooks": {
            "guard": "NAKEN_ASM_VERIF",
            "enable": "vf/build.py compiles /repo's working tree out-of-tree into /verif/.work/build/<variant>/ with -DNAKEN_ASM_VERIF",
            "baseline_off_cmd": "cd /repo && ./configure && make && make tests",
            "source_commits": hook_commits,
            "add_only": True,
        },
        "engines": [
            {"name": "vdrv", "path": "harness/vdrv.cpp", "kind_free_text": "in-process driver linked against the ASan/UBSan build of the library; one request per case, crash attribution",
             "serves_properties": sorted(k for k, v in CHECKS.items() if "vdrv" in v["engine"])},
            {"name": "cli", "path": "vf/proc.py", "kind_free_text": "real naken_asm / naken_util sanitizer binaries, one case per process under CPU/RSS/file-size limits",
             "serves_properties": sorted(k for k, v in CHECKS.items() if "cli" in v["engine"])},
            {"name": "ref", "path": "vf/ref", "kind_free_text": "reference models and format decoders written from the documentation/specifications",
             "serves_properties": sorted(CHECKS)},
        ],
        "checks": checks,
        "not_applicable": na,
        "notes": "Technique family: runtime monitoring and sanitizers. See DESIGN.md. known-findings.txt lists open findings and fixed defects.",
    }
    json.dump(m, open(os.path.join(HERE, "MANIFEST.json"), "w"), indent=1)
    print("checks=%d not_applicable=%d" % (len(checks), len(na)))

main()
