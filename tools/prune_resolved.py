#!/usr/bin/env python3
"""Developer tool: drop `open:` entries of a property that the last run (evidence file given) reports as no longer
reproduced (known_findings_not_reproduced), together with their witness files.  Never run by a registered check."""
import json, os, re, sys
HERE = os.path.dirname(os.path.dirname(os.path.abspath(__file__)))
pid, evpath = sys.argv[1], sys.argv[2]
ev = json.load(open(evpath))
assert ev["property_id"] == pid
gone = set(ev["coverage"]["known_findings_not_reproduced"])
kf = os.path.join(HERE, "known-findings.txt")
out, n = [], 0
for ln in open(kf):
    m = re.match(r"^open:\s+property=(\S+)\s+key=(\S+)\s+witness=(\S+)", ln)
    if m and m.group(1) == pid and m.group(2) in gone:
        w = os.path.join(HERE, m.group(3))
        if os.path.exists(w):
            os.unlink(w)
        n += 1
        print("resolved:", m.group(2))
        continue
    out.append(ln)
open(kf, "w").writelines(out)
print("pruned %d entries of %s" % (n, pid))
