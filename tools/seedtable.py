#!/usr/bin/env python3
"""Prints the markdown table of seeded changes and which tier of which check caught them."""
import glob, json, os
HERE = os.path.dirname(os.path.dirname(os.path.abspath(__file__)))
print("| seed | what it changes (short) | confirmed (tests pass, demo flips) | quick | thorough | first violation key |")
print("|---|---|---|---|---|---|")
for d in sorted(glob.glob(os.path.join(HERE, "seeded", "C*_*"))):
    sid = os.path.basename(d)
    try:
        meta = json.load(open(os.path.join(d, "meta.json")))
    except Exception:
        meta = {}
    try:
        conf = json.load(open(os.path.join(d, "confirm.json")))
        c = "yes" if conf.get("tests_exit") == 0 and conf.get("demo_unpatched_exit") == 0 and conf.get("demo_patched_exit") == 1 else "NO"
    except Exception:
        c = "-"
    try:
        det = json.load(open(os.path.join(d, "detect.json")))
    except Exception:
        det = {}
    def cell(t):
        x = det.get(t)
        if not x:
            return "-"
        return "caught" if x.get("detected") else "missed (exit %s)" % x.get("check_exit")
    key = ""
    for t in ("quick", "thorough"):
        fv = (det.get(t) or {}).get("first_violation", "")
        if "key=" in fv:
            key = fv.split("key=", 1)[1].split(" ::")[0][:70]
            break
    summ = (meta.get("summary", "") or "").replace("|", "/").replace("\n", " ")[:110]
    print("| %s | %s | %s | %s | %s | `%s` |" % (sid, summ, c, cell("quick"), cell("thorough"), key))
