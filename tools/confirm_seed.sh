#!/bin/bash
# usage: confirm_seed.sh <dir with patch.diff demo.sh meta.json> <id>
# Confirms in a scratch worktree: demo passes unpatched, patch applies, builds,
# `make tests` passes, demo fails patched.  Writes <dir>/confirm.json. Removes the worktree.
src=$1; id=$2
wt=/tmp/cs/$id
mkdir -p /tmp/cs
git -C /repo worktree remove --force $wt >/dev/null 2>&1
rm -rf $wt
git -C /repo worktree add --detach $wt HEAD >/dev/null 2>&1 || { echo "worktree failed"; exit 2; }
cd $wt
head=$(git rev-parse --short HEAD)
./configure >/dev/null 2>&1
make -j2 >/dev/null 2>&1 || { echo "{\"id\":\"$id\",\"error\":\"unpatched build failed\"}" > $src/confirm.json; }
bash $src/demo.sh $wt > $src/demo_unpatched.log 2>&1; d0=$?
git apply $src/patch.diff 2> $src/apply.log; ap=$?
make -j2 > $src/build_patched.log 2>&1; b=$?
make tests > /tmp/cs/$id.tests.log 2>&1; t=$?
fails=$(grep -ci "fail" /tmp/cs/$id.tests.log)
passes=$(grep -c "PASS" /tmp/cs/$id.tests.log)
bash $src/demo.sh $wt > $src/demo_patched.log 2>&1; d1=$?
echo "{\"id\":\"$id\",\"repo_head\":\"$head\",\"apply_exit\":$ap,\"build_exit\":$b,\"tests_exit\":$t,\"tests_fail_lines\":$fails,\"tests_pass_lines\":$passes,\"demo_unpatched_exit\":$d0,\"demo_patched_exit\":$d1}" > $src/confirm.json
cat $src/confirm.json
cd /
git -C /repo worktree remove --force $wt >/dev/null 2>&1
rm -rf $wt /tmp/cs/$id.tests.log $src/build_patched.log
