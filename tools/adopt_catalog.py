#!/usr/bin/env python3
"""Developer tool: after triage, adopt the catalogue produced by `./check Cnn --catalog`
as open known findings (copies witnesses to findings/Cnn and appends the lines).
Never run by a registered check."""
import os, shutil, sys, re
HERE = os.path.dirname(os.path.dirname(os.path.abspath(__file__)))
pid = sys.argv[1]
only = sys.argv[2:]  # optional key regexes
src = os.path.join(HERE, ".work", "catalog", pid)
dst = os.path.join(HERE, "findings", pid)
os.makedirs(dst, exist_ok=True)
kf = os.path.join(HERE, "known-findings.txt")
existing = open(kf).read()
lines = [l.rstrip("\n") for l in open(os.path.join(src, "PROPOSED.txt")) if l.strip()]
# drop old open entries of this property that are being replaced
have = set(re.findall(r"^open: property=%s key=(\S+)" % pid, existing, re.M))
out = []
n = 0
for l in lines:
    key = re.search(r"key=(\S+)", l).group(1)
    if only and not any(re.search(o, key) for o in only):
        continue
    fn = re.search(r"witness=findings/%s/(\S+)" % pid, l).group(1)
    shutil.copy(os.path.join(src, fn), os.path.join(dst, fn))
    if key in have:
        continue
    out.append(l)
    n += 1
with open(kf, "a") as f:
    for l in out:
        f.write(l + "\n")
print("adopted %d new entries for %s (witness files refreshed)" % (n, pid))
