#!/bin/bash
# usage: run_seed.sh <seed id, e.g. C04_1> [tier]   (developer tool, not a registered check)
# Applies seeded/<id>/patch.diff to a scratch worktree of /repo, runs the property's check
# against it (VERIF_REPO), records the outcome in seeded/<id>/detect.json, removes everything.
id=$1; tier=${2:-quick}
pid=${id%%_*}
wt=/tmp/sw/$id
mkdir -p /tmp/sw
git -C /repo worktree remove --force $wt >/dev/null 2>&1; rm -rf $wt
git -C /repo worktree add --detach $wt HEAD >/dev/null 2>&1 || { echo "worktree failed"; exit 2; }
git -C $wt apply /verif/seeded/$id/patch.diff || { echo "apply failed"; git -C /repo worktree remove --force $wt; exit 2; }
cd /verif
log=/verif/.work/seedlogs/$id.$tier.log
mkdir -p /verif/.work/seedlogs /tmp/sw/ev_$id
t0=$(date +%s)
VERIF_REPO=$wt VERIF_EVIDENCE_DIR=/tmp/sw/ev_$id VERIF_REPLAY_DIR=/tmp/sw/ev_$id/rp VERIF_NPROC=${VERIF_NPROC:-4} timeout ${SEED_TIMEOUT:-1500} ./check $pid --tier $tier > $log 2>&1
rc=$?
t1=$(date +%s)
nv=$(grep -c '^VIOLATION' $log)
first=$(grep -m1 '^VIOLATION' $log | cut -c1-300 | sed 's/\\/\\\\/g; s/"/\\"/g')
python3 - "$id" "$tier" "$rc" "$nv" "$((t1-t0))" "$first" <<'EOF'
import json, sys, os
id, tier, rc, nv, secs, first = sys.argv[1:7]
p = "/verif/seeded/%s/detect.json" % id
try:
    d = json.load(open(p))
except Exception:
    d = {}
d[tier] = {"check_exit": int(rc), "violation_lines": int(nv), "seconds": int(secs), "first_violation": first,
           "detected": int(rc) == 1 and int(nv) > 0}
json.dump(d, open(p, "w"), indent=1)
print(id, tier, "exit", rc, "violations", nv, "secs", secs)
EOF
h=$(python3 -c "import hashlib;print(hashlib.sha1(b'$wt').hexdigest()[:10])")
rm -rf /verif/.work/build/san-$h /verif/.work/build/*-$h /tmp/sw/ev_$id
git -C /repo worktree remove --force $wt >/dev/null 2>&1; rm -rf $wt
