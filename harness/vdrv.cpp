// vdrv: in-process driver for the naken_asm library (verification harness).
//
// Line protocol on stdin/stdout.  One request per line, tab separated, binary
// fields hex encoded.  One response line per request, "k=v" tab separated.
// The response is flushed before the next request is read, so when the
// process dies the culprit is the request following the last response.
//
// Requests:
//   asm   <cpu|-> <opts> <hexsrc>
//   dis   <cpu> <addr> <hexbytes>
//   disr  <cpu> <start> <end> <addr> <hexbytes>
//   sim   <cpu> <show> <steps> <regs n=v,..> <mem addr:hex;..> <getregs n,n,..> [breakio]
//   cpus
//   quit
//
// Library calls to exit() are intercepted (-Wl,--wrap=exit) and reported.
// A per-request virtual-time (CPU) timer turns non-termination into a
// "timeout" response followed by process exit.

#include <setjmp.h>
#include <signal.h>
#include <stdint.h>
#include <stdio.h>
#include <stdlib.h>
#include <string.h>
#include <fcntl.h>
#include <sys/mman.h>
#include <sys/time.h>
#include <unistd.h>

#include <map>
#include <string>
#include <vector>

#include "core/AsmContext.h"
#include "core/cpu_list.h"
#include "core/directives_include.h"
#include "core/Memory.h"
#include "core/tokens.h"
#include "simulate/Simulate.h"

#include "cputab.inc"

static FILE *pout;
static int pout_fd;
static jmp_buf exit_jmp;
static volatile int in_request = 0;
static int exit_called = 0;
static int exit_code = 0;
static FILE *real_stdout;

extern "C" void __real_exit(int code);
extern "C" void __wrap_exit(int code)
{
  if (in_request)
  {
    exit_called = 1;
    exit_code = code;
    longjmp(exit_jmp, 1);
  }
  __real_exit(code);
}

static void on_timer(int sig)
{
  const char msg[] = "timeout=1\n";
  ssize_t r = write(pout_fd, msg, sizeof(msg) - 1);
  (void)r;
  _exit(3);
}

static void arm_timer(int seconds)
{
  struct itimerval it;
  memset(&it, 0, sizeof(it));
  it.it_value.tv_sec = seconds;
  setitimer(ITIMER_VIRTUAL, &it, NULL);
}

// progress cell shared with the orchestrator (mmap of $VDRV_PROGRESS)
static volatile uint32_t *progress = NULL;
static uint32_t progress_dummy[16];

static void progress_init()
{
  progress = progress_dummy;
  const char *fn = getenv("VDRV_PROGRESS");
  if (fn == NULL) return;
  int fd = open(fn, O_RDWR | O_CREAT, 0600);
  if (fd < 0) return;
  if (ftruncate(fd, 64) != 0) { close(fd); return; }
  void *m = mmap(NULL, 64, PROT_READ | PROT_WRITE, MAP_SHARED, fd, 0);
  close(fd);
  if (m != MAP_FAILED) { progress = (volatile uint32_t *)m; }
}

static std::string hexenc(const void *p, size_t n)
{
  static const char d[] = "0123456789abcdef";
  const uint8_t *b = (const uint8_t *)p;
  std::string s;
  s.reserve(n * 2);
  for (size_t i = 0; i < n; i++) { s += d[b[i] >> 4]; s += d[b[i] & 15]; }
  return s;
}

static int hv(char c)
{
  if (c >= '0' && c <= '9') return c - '0';
  if (c >= 'a' && c <= 'f') return c - 'a' + 10;
  if (c >= 'A' && c <= 'F') return c - 'A' + 10;
  return 0;
}

static std::string hexdec(const std::string &s)
{
  std::string o;
  o.reserve(s.size() / 2);
  for (size_t i = 0; i + 1 < s.size(); i += 2) { o += (char)((hv(s[i]) << 4) | hv(s[i + 1])); }
  return o;
}

static std::vector<std::string> split(const std::string &s, char sep)
{
  std::vector<std::string> v;
  size_t a = 0;
  while (true)
  {
    size_t b = s.find(sep, a);
    if (b == std::string::npos) { v.push_back(s.substr(a)); break; }
    v.push_back(s.substr(a, b - a));
    a = b + 1;
  }
  return v;
}

static int find_cpu(const std::string &name)
{
  for (int n = 0; cpu_list[n].name != NULL; n++)
  {
    if (name == cpu_list[n].name) return n;
  }
  return -1;
}

static disasm_fn_t find_disasm(const std::string &name)
{
  for (int n = 0; vdrv_cputab[n].name != NULL; n++)
  {
    if (name == vdrv_cputab[n].name) return vdrv_cputab[n].fn;
  }
  return NULL;
}

// ---- stdout capture -------------------------------------------------

static char *cap_buf = NULL;
static size_t cap_len = 0;
static FILE *cap_file = NULL;

static void cap_begin()
{
  cap_buf = NULL;
  cap_len = 0;
  cap_file = open_memstream(&cap_buf, &cap_len);
  stdout = cap_file;
}

static std::string cap_end(size_t limit)
{
  stdout = real_stdout;
  std::string s;
  if (cap_file != NULL)
  {
    fclose(cap_file);
    cap_file = NULL;
    if (cap_buf != NULL)
    {
      s.assign(cap_buf, cap_len > limit ? limit : cap_len);
      free(cap_buf);
      cap_buf = NULL;
    }
  }
  return s;
}

// ---- label events ---------------------------------------------------

static std::string events;

static void label_cb(AsmContext *c, const char *name, uint32_t value, int found, uint32_t recorded)
{
  char tmp[64];
  snprintf(tmp, sizeof(tmp), "%d:%d:", c->pass, c->tokens.line);
  events += tmp;
  events += hexenc(name, strlen(name));
  snprintf(tmp, sizeof(tmp), ":%u:%d:%u;", value, found, recorded);
  events += tmp;
}

// ---- asm ------------------------------------------------------------

static void emit_image(AsmContext *ctx)
{
  fprintf(pout, "\timg=");
  // pages are not sorted; emit runs per page
  for (MemoryPage *p = ctx->memory.pages; p != NULL; p = p->next)
  {
    int run_start = -1;
    for (int off = 0; off <= PAGE_SIZE; off++)
    {
      bool w = off < PAGE_SIZE && p->debug_line[off] != -1;
      if (w && run_start < 0) { run_start = off; }
      if (!w && run_start >= 0)
      {
        fprintf(pout, "%x:%s;", p->address + run_start,
                hexenc(p->bin + run_start, off - run_start).c_str());
        run_start = -1;
      }
    }
  }
}

static void do_asm(const std::vector<std::string> &f)
{
  if (f.size() < 4) { fprintf(pout, "err=args\n"); return; }
  std::string src = hexdec(f[3]);
  std::vector<std::string> opts = split(f[2], ',');
  AsmContext *ctx = new AsmContext();
  events.clear();
  int p1 = -99, p2 = -99, l1 = -99, l2 = -99;
  int rc = 1;
  FILE *in = fmemopen((void *)src.data(), src.size() ? src.size() : 1, "rb");
  if (src.size() == 0) { in = fopen("/dev/null", "rb"); }
  ctx->tokens.in = in;
  ctx->tokens.filename = "vdrv.asm";
  ctx->quiet_output = 1;
  for (size_t i = 0; i < opts.size(); i++)
  {
    if (opts[i] == "opt") { ctx->optimize = 1; }
    else if (opts[i].compare(0, 4, "inc=") == 0) { include_add_path(ctx, opts[i].c_str() + 4); }
    else if (opts[i] == "noquiet") { ctx->quiet_output = 0; }
  }
  exit_called = 0;
  cap_begin();
  in_request = 1;
  if (setjmp(exit_jmp) == 0)
  {
    ctx->pass = 1;
    ctx->init();
    p1 = ctx->assemble();
    if (p1 == 0) { l1 = ctx->link(); }
    if (p1 == 0 && l1 == 0)
    {
      ctx->symbols.lock();
      ctx->symbols.scope_reset();
      ctx->pass = 2;
      ctx->init();
      p2 = ctx->assemble();
      if (p2 == 0) { l2 = ctx->link(); }
      if (p2 == 0 && l2 == 0) { rc = 0; }
    }
  }
  in_request = 0;
  std::string out = cap_end(8192);
  fprintf(pout, "rc=%d\tp1=%d\tp2=%d\tl1=%d\tl2=%d\texit=%d\texitcode=%d\tbpa=%d\tendian=%d\tcpu=%d\tlow=%u\thigh=%u\taddr=%d",
          rc, p1, p2, l1, l2, exit_called, exit_code, ctx->bytes_per_address, ctx->memory.endian,
          ctx->cpu_list_index, ctx->memory.low_address, ctx->memory.high_address, ctx->address);
  if (!exit_called)
  {
    emit_image(ctx);
    fprintf(pout, "\tsyms=");
    SymbolsIter iter;
    int guard = 0;
    while (ctx->symbols.iterate(&iter) != -1 && guard++ < 100000)
    {
      fprintf(pout, "%s:%u:%u:%d;", hexenc(iter.name, strlen(iter.name)).c_str(), iter.address, iter.scope,
              iter.flag_export ? 1 : 0);
    }
  }
  fprintf(pout, "\tev=%s\tout=%s\n", events.c_str(), hexenc(out.data(), out.size()).c_str());
  if (!exit_called)
  {
    if (ctx->tokens.in != NULL) { fclose(ctx->tokens.in); ctx->tokens.in = NULL; }
    delete ctx;
  }
}

// ---- dis ------------------------------------------------------------

static Memory *dmem = NULL;

static void put_bytes(Memory *m, uint32_t addr, const std::string &b)
{
  for (size_t i = 0; i < b.size(); i++) { m->write8(addr + i, (uint8_t)b[i]); }
}

static void wipe_bytes(Memory *m, uint32_t addr, size_t n)
{
  for (size_t i = 0; i < n; i++) { m->write8(addr + i, 0); }
}

static void do_dis(const std::vector<std::string> &f)
{
  if (f.size() < 4) { fprintf(pout, "err=args\n"); return; }
  int ci = find_cpu(f[1]);
  disasm_fn_t fn = find_disasm(f[1]);
  if (ci < 0 || fn == NULL) { fprintf(pout, "err=cpu\n"); return; }
  uint32_t addr = strtoul(f[2].c_str(), NULL, 0);
  std::string bytes = hexdec(f[3]);
  if (dmem == NULL) { dmem = new Memory(); }
  dmem->endian = cpu_list[ci].default_endian;
  put_bytes(dmem, addr, bytes);
  char *text = (char *)malloc(128);
  memset(text, 0x7e, 128);
  int cmin = -12345, cmax = -12345;
  exit_called = 0;
  cap_begin();
  in_request = 1;
  int n = -999;
  if (setjmp(exit_jmp) == 0)
  {
    n = fn(dmem, addr, text, 128, cpu_list[ci].flags, &cmin, &cmax);
  }
  in_request = 0;
  std::string out = cap_end(1024);
  int term = memchr(text, 0, 128) != NULL;
  size_t tl = term ? strlen(text) : 128;
  fprintf(pout, "n=%d\tcmin=%d\tcmax=%d\tterm=%d\texit=%d\ttext=%s\tout=%s\n", n, cmin, cmax, term, exit_called,
          hexenc(text, tl).c_str(), hexenc(out.data(), out.size()).c_str());
  free(text);
  wipe_bytes(dmem, addr, bytes.size());
}

static void do_disr(const std::vector<std::string> &f)
{
  if (f.size() < 6) { fprintf(pout, "err=args\n"); return; }
  int ci = find_cpu(f[1]);
  if (ci < 0) { fprintf(pout, "err=cpu\n"); return; }
  uint32_t start = strtoul(f[2].c_str(), NULL, 0);
  uint32_t end = strtoul(f[3].c_str(), NULL, 0);
  uint32_t addr = strtoul(f[4].c_str(), NULL, 0);
  std::string bytes = hexdec(f[5]);
  if (dmem == NULL) { dmem = new Memory(); }
  dmem->endian = cpu_list[ci].default_endian;
  put_bytes(dmem, addr, bytes);
  exit_called = 0;
  cap_begin();
  in_request = 1;
  if (setjmp(exit_jmp) == 0)
  {
    cpu_list[ci].disasm_range(dmem, cpu_list[ci].flags, start, end);
  }
  in_request = 0;
  std::string out = cap_end(4 << 20);
  fprintf(pout, "exit=%d\tout=%s\n", exit_called, hexenc(out.data(), out.size()).c_str());
  wipe_bytes(dmem, addr, bytes.size());
}



static std::string enc_text(const char *t, size_t n);

static void do_walk(const std::vector<std::string> &f)
{
  if (f.size() < 6) { fprintf(pout, "err=args\n"); return; }
  int ci = find_cpu(f[1]);
  disasm_fn_t fn = find_disasm(f[1]);
  if (ci < 0 || fn == NULL) { fprintf(pout, "err=cpu\n"); return; }
  uint32_t start = strtoul(f[2].c_str(), NULL, 0);
  uint32_t end = strtoul(f[3].c_str(), NULL, 0);
  uint32_t addr = strtoul(f[4].c_str(), NULL, 0);
  std::string bytes = hexdec(f[5]);
  if (dmem == NULL) { dmem = new Memory(); }
  dmem->endian = cpu_list[ci].default_endian;
  put_bytes(dmem, addr, bytes);
  std::string steps;
  std::string texts;
  bool want_texts = f.size() > 6 && f[6] == "1";
  char tmp[64];
  char *text = (char *)malloc(128);
  exit_called = 0;
  cap_begin();
  in_request = 1;
  if (setjmp(exit_jmp) == 0)
  {
    uint64_t a = start;
    int guard = 0;
    while (a <= end && guard++ < 200000)
    {
      int c1 = 0, c2 = 0;
      memset(text, 0, 128);
      int n = fn(dmem, (uint32_t)a, text, 128, cpu_list[ci].flags, &c1, &c2);
      snprintf(tmp, sizeof(tmp), "%x:%d;", (uint32_t)a, n);
      steps += tmp;
      if (want_texts) { texts += enc_text(text, strnlen(text, 128)); texts += '\x1f'; }
      if (n <= 0) break;
      a += n;
    }
  }
  in_request = 0;
  cap_end(16);
  free(text);
  fprintf(pout, "exit=%d\tsteps=%s\ttexts=%s\n", exit_called, steps.c_str(), texts.c_str());
  wipe_bytes(dmem, addr, bytes.size());
}

// ---- sweep ------------------------------------------------------------
// sweep <cpu> <addr> <first> <count> <tailhex> <mode> <maxlen>
//   mode bit0: return the text of every pattern; bit1: locality re-decodes.
// Every pattern p gives the byte string tail[0:pos] + [p>>8, p&255] + tail[pos:] at <addr>.

static std::string enc_text(const char *t, size_t n)
{
  bool raw = true;
  for (size_t i = 0; i < n; i++)
  {
    unsigned char c = (unsigned char)t[i];
    if (c < 0x20 || c == 0x7f || c == '\\') { raw = false; break; }
  }
  if (raw) { return std::string("r") + std::string(t, n); }
  return std::string("h") + hexenc(t, n);
}

static void do_sweep(const std::vector<std::string> &f)
{
  if (f.size() < 8) { fprintf(pout, "err=args\n"); return; }
  int ci = find_cpu(f[1]);
  disasm_fn_t fn = find_disasm(f[1]);
  if (ci < 0 || fn == NULL) { fprintf(pout, "err=cpu\n"); return; }
  uint32_t addr = strtoul(f[2].c_str(), NULL, 0);
  uint32_t first = strtoul(f[3].c_str(), NULL, 0);
  uint32_t count = strtoul(f[4].c_str(), NULL, 0);
  std::string tail = hexdec(f[5]);
  int mode = atoi(f[6].c_str());
  int maxlen = atoi(f[7].c_str());
  size_t pos = f.size() > 8 ? (size_t)atoi(f[8].c_str()) : 0;
  if (pos > tail.size()) { pos = tail.size(); }
  int unit = cpu_list[ci].bytes_per_address;
  if (dmem == NULL) { dmem = new Memory(); }
  dmem->endian = cpu_list[ci].default_endian;
  size_t total = 2 + tail.size();
  std::string rows;
  std::string bad;
  std::map<int, int> hist;
  char tmp[96];
  char *text = (char *)malloc(128);
  char *text2 = (char *)malloc(128);
  exit_called = 0;
  cap_begin();
  in_request = 1;
  volatile uint32_t p = first;
  if (setjmp(exit_jmp) != 0)
  {
    // exit() inside a decoder: record and continue with the next pattern
    snprintf(tmp, sizeof(tmp), "%u:exit;", (unsigned)p);
    bad += tmp;
    p = p + 1;
  }
  for (; p < first + count; p = p + 1)
  {
    progress[0] = p; progress[1] = 1;
    std::string bytes = tail.substr(0, pos);
    bytes += (char)(p >> 8);
    bytes += (char)(p & 0xff);
    bytes += tail.substr(pos);
    put_bytes(dmem, addr, bytes);
    memset(text, 0x7e, 128);
    int cmin = 0, cmax = 0;
    int n = fn(dmem, addr, text, 128, cpu_list[ci].flags, &cmin, &cmax);
    bool term = memchr(text, 0, 128) != NULL;
    size_t tl = term ? strlen(text) : 128;
    hist[n]++;
    if (!term) { snprintf(tmp, sizeof(tmp), "%u:unterminated;", (unsigned)p); bad += tmp; }
    if (n < unit) { snprintf(tmp, sizeof(tmp), "%u:short:%d;", (unsigned)p, n); bad += tmp; }
    else if (maxlen > 0 && n > maxlen) { snprintf(tmp, sizeof(tmp), "%u:long:%d;", (unsigned)p, n); bad += tmp; }
    if ((mode & 2) && n >= 1 && (size_t)n < total)
    {
      for (int alt = 0; alt < 2; alt++)
      {
        progress[1] = 2 + alt;
        std::string b2 = bytes;
        for (size_t i = n; i < total; i++) { b2[i] = alt == 0 ? (char)0xff : (char)(bytes[i] ^ 0x5a); }
        put_bytes(dmem, addr, b2);
        memset(text2, 0x7e, 128);
        int c1 = 0, c2 = 0;
        int n2 = fn(dmem, addr, text2, 128, cpu_list[ci].flags, &c1, &c2);
        bool term2 = memchr(text2, 0, 128) != NULL;
        if (n2 != n)
        {
          snprintf(tmp, sizeof(tmp), "%u:nonlocal-len:%d:%d;", (unsigned)p, n, n2); bad += tmp;
          break;
        }
        if (term && term2 && strcmp(text, text2) != 0)
        {
          snprintf(tmp, sizeof(tmp), "%u:nonlocal-text:%d;", (unsigned)p, n); bad += tmp;
          break;
        }
      }
    }
    if (mode & 1)
    {
      snprintf(tmp, sizeof(tmp), "%d:", n);
      rows += tmp;
      rows += enc_text(text, tl);
      rows += '\x1f';
    }
    wipe_bytes(dmem, addr, total);
  }
  in_request = 0;
  progress[1] = 0;
  std::string out = cap_end(256);
  free(text);
  free(text2);
  fprintf(pout, "count=%u\tunit=%d\thist=", count, unit);
  for (std::map<int, int>::iterator it = hist.begin(); it != hist.end(); ++it) { fprintf(pout, "%d:%d;", it->first, it->second); }
  fprintf(pout, "\tbad=%s\trows=%s\n", bad.c_str(), rows.c_str());
}

// ---- sim ------------------------------------------------------------

static Memory *smem = NULL;
static std::map<uint32_t, uint8_t *> shadow;  // page address -> PAGE_SIZE copy
static int smem_endian = -1;

static void smem_reset()
{
  if (smem != NULL) { delete smem; }
  for (std::map<uint32_t, uint8_t *>::iterator it = shadow.begin(); it != shadow.end(); ++it) { free(it->second); }
  shadow.clear();
  smem = new Memory();
}

static uint8_t *shadow_page(uint32_t addr)
{
  uint32_t base = (addr / PAGE_SIZE) * PAGE_SIZE;
  std::map<uint32_t, uint8_t *>::iterator it = shadow.find(base);
  if (it != shadow.end()) return it->second;
  uint8_t *p = (uint8_t *)calloc(1, PAGE_SIZE);
  shadow[base] = p;
  return p;
}

static void do_sim(const std::vector<std::string> &f)
{
  if (f.size() < 7) { fprintf(pout, "err=args\n"); return; }
  int ci = find_cpu(f[1]);
  if (ci < 0 || cpu_list[ci].simulate_init == NULL) { fprintf(pout, "err=cpu\n"); return; }
  int show = atoi(f[2].c_str());
  int steps = atoi(f[3].c_str());
  int npages = 0;
  if (smem != NULL) { for (MemoryPage *p = smem->pages; p != NULL; p = p->next) npages++; }
  if (smem == NULL || npages > 24 || smem_endian != cpu_list[ci].default_endian) { smem_reset(); }
  smem_endian = cpu_list[ci].default_endian;
  smem->endian = smem_endian;
  // memory image
  std::vector<std::pair<uint32_t, size_t> > placed;
  std::vector<std::string> ms = split(f[5], ';');
  for (size_t i = 0; i < ms.size(); i++)
  {
    size_t c = ms[i].find(':');
    if (c == std::string::npos) continue;
    uint32_t a = strtoul(ms[i].substr(0, c).c_str(), NULL, 16);
    std::string b = hexdec(ms[i].substr(c + 1));
    for (size_t k = 0; k < b.size(); k++)
    {
      smem->write8(a + k, (uint8_t)b[k]);
      shadow_page(a + k)[(a + k) % PAGE_SIZE] = (uint8_t)b[k];
    }
    placed.push_back(std::make_pair(a, b.size()));
  }
  exit_called = 0;
  int rc = -999;
  int badreg = 0;
  std::string regs_out;
  std::string dump;
  Simulate *sim = NULL;
  cap_begin();
  in_request = 1;
  std::string runout;
  if (setjmp(exit_jmp) == 0)
  {
    sim = cpu_list[ci].simulate_init(smem);
    sim->reset();
    if (f.size() > 7 && f[7].size() > 0) { sim->set_break_io(strtoul(f[7].c_str(), NULL, 0)); }
    std::vector<std::string> rs = split(f[4], ',');
    for (size_t i = 0; i < rs.size(); i++)
    {
      size_t c = rs[i].find('=');
      if (c == std::string::npos) continue;
      std::string name = rs[i].substr(0, c);
      uint32_t v = strtoul(rs[i].substr(c + 1).c_str(), NULL, 0);
      if (name == "pc") { sim->set_pc(v); }
      else if (sim->set_reg(name.c_str(), v) != 0) { badreg++; }
    }
    sim->set_delay(0);
    sim->set_show(show != 0);
    sim->set_clear(false);
    sim->enable_step_mode();
    for (int s = 0; s < steps; s++)
    {
      rc = sim->run(-1, 1);
      if (rc != 0) break;
    }
    runout = cap_end(65536);
    cap_begin();
    std::vector<std::string> gs = split(f[6], ',');
    char tmp[64];
    for (size_t i = 0; i < gs.size(); i++)
    {
      if (gs[i].empty()) continue;
      uint32_t v = sim->get_reg(gs[i].c_str());
      snprintf(tmp, sizeof(tmp), "%s=%u,", gs[i].c_str(), v);
      regs_out += tmp;
    }
    sim->dump_registers();
    dump = cap_end(16384);
    cap_begin();
  }
  in_request = 0;
  std::string rest = cap_end(65536);
  if (exit_called) { runout = rest; }
  // memory diff against shadow
  std::string diff;
  char tmp[64];
  for (MemoryPage *p = smem->pages; p != NULL; p = p->next)
  {
    uint8_t *sh = shadow_page(p->address);
    if (memcmp(sh, p->bin, PAGE_SIZE) != 0)
    {
      for (int o = 0; o < PAGE_SIZE; o++)
      {
        if (sh[o] != p->bin[o])
        {
          snprintf(tmp, sizeof(tmp), "%x:%02x;", p->address + o, p->bin[o]);
          diff += tmp;
          if (diff.size() > 20000) break;
        }
      }
      memcpy(p->bin, sh, PAGE_SIZE);
    }
  }
  // wipe the placed image
  for (size_t i = 0; i < placed.size(); i++)
  {
    for (size_t k = 0; k < placed[i].second; k++)
    {
      uint32_t a = placed[i].first + k;
      smem->write8(a, 0);
      shadow_page(a)[a % PAGE_SIZE] = 0;
    }
  }
  fprintf(pout, "rc=%d\texit=%d\texitcode=%d\tbadreg=%d\tregs=%s\tdiff=%s\tdump=%s\trunout=%s\n", rc, exit_called,
          exit_code, badreg, regs_out.c_str(), diff.c_str(), hexenc(dump.data(), dump.size()).c_str(),
          hexenc(runout.data(), runout.size()).c_str());
  if (sim != NULL && !exit_called) { delete sim; }
}

// ---- main -----------------------------------------------------------

int main(int argc, char *argv[])
{
  int timeout = 20;
  if (argc > 1) { timeout = atoi(argv[1]); }
  pout_fd = dup(1);
  pout = fdopen(pout_fd, "w");
  real_stdout = stdout;
  FILE *nul = fopen("/dev/null", "w");
  real_stdout = nul;
  stdout = nul;
  signal(SIGVTALRM, on_timer);
  progress_init();
  naken_asm_verif_label_cb = label_cb;

  char *line = NULL;
  size_t cap = 0;
  ssize_t len;
  while ((len = getline(&line, &cap, stdin)) > 0)
  {
    while (len > 0 && (line[len - 1] == '\n' || line[len - 1] == '\r')) { line[--len] = 0; }
    std::vector<std::string> f = split(std::string(line, len), '\t');
    if (f.empty()) { continue; }
    arm_timer(timeout);
    if (f[0] == "quit") { break; }
    else if (f[0] == "timeout" && f.size() > 1) { timeout = atoi(f[1].c_str()); fprintf(pout, "ok=1\n"); }
    else if (f[0] == "asm") { do_asm(f); }
    else if (f[0] == "dis") { do_dis(f); }
    else if (f[0] == "disr") { do_disr(f); }
    else if (f[0] == "sweep") { do_sweep(f); }
    else if (f[0] == "walk") { do_walk(f); }
    else if (f[0] == "sim") { do_sim(f); }
    else if (f[0] == "cpus")
    {
      fprintf(pout, "cpus=");
      for (int n = 0; cpu_list[n].name != NULL; n++)
      {
        fprintf(pout, "%s:%d:%d:%d:%d:%d:%d;", cpu_list[n].name, cpu_list[n].default_endian,
                cpu_list[n].bytes_per_address, cpu_list[n].alignment, cpu_list[n].simulate_init != NULL,
                cpu_list[n].srec_size, find_disasm(cpu_list[n].name) != NULL);
      }
      fprintf(pout, "\n");
    }
    else { fprintf(pout, "err=unknown\n"); }
    arm_timer(0);
    fflush(pout);
  }
  fflush(pout);
  _exit(0);
}
