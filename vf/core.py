"""Run context shared by all checks: verdict bookkeeping, known-findings
matching, evidence, replay files, parallel map over worker processes."""
import hashlib
import json
import multiprocessing as mp
import os
import random
import re
import sys
import time
import traceback

from . import build as vbuild
from . import driver, proc

VERIF = vbuild.VERIF
KF_PATH = os.path.join(VERIF, "known-findings.txt")
NPROC = int(os.environ.get("VERIF_NPROC", "16"))


class HarnessFailure(Exception):
    pass


# --------------------------------------------------------------- findings

def load_findings(pid):
    """Return (open_entries, fixed_entries) for a property."""
    opens, fixed = [], []
    if not os.path.exists(KF_PATH):
        return opens, fixed
    for ln in open(KF_PATH):
        ln = ln.rstrip("\n")
        if not ln.strip() or ln.startswith("#"):
            continue
        m = re.match(r"^(open|fixed):\s+property=(\S+)\s+(.*)$", ln)
        if not m or m.group(2) != pid:
            continue
        if m.group(1) == "fixed":
            fixed.append(m.group(3))
            continue
        rest = m.group(3)
        desc = ""
        if " :: " in rest:
            rest, desc = rest.split(" :: ", 1)
        km = re.search(r"key=(\S+)", rest)
        wm = re.search(r"witness=(\S+)", rest)
        if not km:
            continue
        opens.append({"key": km.group(1), "witness": wm.group(1) if wm else None, "desc": desc.strip()})
    return opens, fixed


# --------------------------------------------------------------- parallel

ARTS = {}
_VD = None


def get_vdrv(timeout_cpu=20):
    global _VD
    if _VD is None:
        _VD = driver.Vdrv(ARTS["san"]["vdrv"], timeout_cpu=timeout_cpu)
    return _VD


def reset_vdrv():
    """Close this process's driver worker (never drop the handle without closing it:
    an orphaned ASan worker keeps ~300 MB)."""
    global _VD
    if _VD is not None:
        try:
            _VD.close()
        except Exception:
            pass
        _VD = None


def crash_info(e):
    """Summarise a driver.Died into a dict(kind, sig, detail)."""
    if e.timeout:
        return {"kind": "hang", "sig": "hang", "detail": "cpu-time limit inside driver"}
    if e.why == "wall":
        return {"kind": "inconclusive", "sig": "wall-watchdog", "detail": "wall-clock watchdog"}
    if e.san:
        return {"kind": "san", "sig": e.san["sig"], "detail": e.stderr[:1500]}
    if e.signal:
        return {"kind": "signal", "sig": "signal:%d" % e.signal, "detail": e.stderr[-1500:]}
    return {"kind": "lost", "sig": "worker-lost", "detail": e.stderr[-1500:]}


def _run_chunk(args):
    func, chunk = args
    out = []
    for item in chunk:
        try:
            out.append(func(item))
        except driver.Died as e:
            out.append({"_crash": crash_info(e), "_item": item})
        except Exception:
            out.append({"_error": traceback.format_exc(), "_item": item})
    return out


def pmap(func, items, chunk=None, nproc=None):
    """Apply func to every item in worker processes (fork); yields results in
    arbitrary order.  func must be a module-level function."""
    items = list(items)
    nproc = nproc or NPROC
    if not items:
        return
    if chunk is None:
        chunk = max(1, min(256, len(items) // (nproc * 8) or 1))
    chunks = [(func, items[i:i + chunk]) for i in range(0, len(items), chunk)]
    ctx = mp.get_context("fork")
    pool = ctx.Pool(min(nproc, len(chunks)))
    try:
        for res in pool.imap_unordered(_run_chunk, chunks):
            for r in res:
                yield r
    finally:
        pool.terminate()
        pool.join()


# --------------------------------------------------------------- run

class Run(object):
    def __init__(self, pid, tier, seed, rule, level="exploration"):
        self.pid = pid
        self.tier = tier
        self.seed = seed
        self.rule = rule
        self.level = level
        self.rng = random.Random(seed * 1000003 + int(pid[1:]))
        self.t0 = time.time()
        self.evaluations = 0
        self.nontrivial = set()
        self.samples = []
        self.viol = {}       # key -> dict(witness, desc, count)
        self.inconclusive = []
        self.cov = {}        # extra coverage keys
        self.assumptions = []
        self.exhaustive = None
        self.harness_errors = []
        self.min_requirements = []   # (description, ok)

    def build(self, *variants):
        for v in variants:
            try:
                ARTS[v] = vbuild.build(v)
            except vbuild.BuildError as e:
                raise HarnessFailure("build failed: " + str(e)[:2000])
        return ARTS

    def count(self, n=1):
        self.evaluations += n

    def nt(self, item):
        self.nontrivial.add(item)

    def sample(self, case, limit=6):
        if len(self.samples) < limit:
            self.samples.append(case)

    def violation(self, key, witness, desc, instance=None):
        """instance: canonical id of the failing input inside an enumerated
        (seed-independent) domain, or None for seeded/generated inputs."""
        key = re.sub(r"\s+", "_", key)
        v = self.viol.get(key)
        if v is None:
            v = self.viol[key] = {"witness": witness, "desc": desc, "count": 1, "instances": {}, "uninst": 0}
            if instance is not None:
                v["instances"][instance] = (witness, desc)
            else:
                v["uninst"] += 1
        else:
            v["count"] += 1
            if instance is not None:
                if instance not in v["instances"]:
                    v["instances"][instance] = (witness, desc) if len(v["instances"]) < 200000 else None
            else:
                v["uninst"] += 1
            # keep the smallest witness
            try:
                if len(json.dumps(witness)) < len(json.dumps(v["witness"])):
                    v["witness"] = witness
                    v["desc"] = desc
            except Exception:
                pass

    def inconc(self, why, case=None):
        self.inconclusive.append({"why": why, "case": case})

    def require(self, desc, ok):
        self.min_requirements.append((desc, bool(ok)))

    def handle_common(self, r):
        """Consume the generic failure shapes produced by pmap; returns True if
        r was one of them."""
        if "_error" in r:
            self.harness_errors.append(r["_error"])
            return True
        return False

    # ---- finishing ----
    def finish(self, replay_fn=None):
        """replay_fn(list of witness cases) -> list of sets of violation keys."""
        opens, fixed = load_findings(self.pid)
        open_keys = {}
        for e in opens:
            open_keys[e["key"]] = e
        known_lines = []
        resolved = []
        # re-execute the witness of every listed finding
        if opens:
            cases, idx = [], []
            for i, e in enumerate(opens):
                if e["witness"]:
                    path = os.path.join(VERIF, e["witness"])
                    try:
                        doc = json.load(open(path))
                    except Exception as ex:
                        raise HarnessFailure("cannot load witness %s: %s" % (path, ex))
                    if isinstance(doc, dict) and "instances" in doc:
                        e["_instances"] = set(doc["instances"])
                    cases.append(doc.get("case", doc) if isinstance(doc, dict) else doc)
                    idx.append(i)
            still = {}
            # only findings this run's exploration did not already reproduce need their witness re-executed
            need = [(i, c) for i, c in zip(idx, cases) if opens[i]["key"] not in self.viol]
            if need and replay_fn is not None:
                res = replay_fn([c for _, c in need])
                for (i, _), keys in zip(need, res):
                    still[i] = opens[i]["key"] in keys
            for i, e in enumerate(opens):
                if e["key"] in self.viol or still.get(i):
                    known_lines.append("KNOWN-FINDING: property=%s %s :: %s" % (self.pid, e["key"], e["desc"]))
                else:
                    resolved.append(e["key"])
        new = {k: v for k, v in self.viol.items() if k not in open_keys}
        # a listed finding that carries an instance catalogue only covers those inputs
        for k, v in self.viol.items():
            e = open_keys.get(k)
            if e is None or not v["instances"]:
                continue
            cat = e.get("_instances")
            if cat is None:
                continue
            extra = [i for i in v["instances"] if i not in cat]
            if extra:
                extra.sort()
                w = v["instances"][extra[0]]
                new[k + "#uncatalogued-input"] = {
                    "witness": w[0] if w else v["witness"], "desc": "%d input(s) outside the catalogued finding, e.g. %s: %s"
                    % (len(extra), extra[0], w[1] if w else v["desc"]), "count": len(extra)}
        if getattr(self, "catalog", False):
            self.write_catalog()
        wall = time.time() - self.t0
        # harness verdicts
        harness_fail = []
        if self.harness_errors:
            harness_fail.append("%d internal errors, first: %s" % (len(self.harness_errors), self.harness_errors[0][-800:]))
        for desc, ok in self.min_requirements:
            if not ok:
                harness_fail.append("monitor requirement not met: " + desc)
        if self.evaluations and len(self.inconclusive) > max(5, self.evaluations // 100):
            harness_fail.append("too many inconclusive cases: %d of %d" % (len(self.inconclusive), self.evaluations))
        # evidence
        cov = {
            "evaluations": int(self.evaluations),
            "distinct_nontrivial": len(self.nontrivial),
            "rule": self.rule,
            "samples": self.samples[:8] if self.samples else [],
            "inconclusive": len(self.inconclusive),
            "inconclusive_examples": self.inconclusive[:3],
            "known_findings_listed": len(opens),
            "known_findings_reproduced": len(known_lines),
            "known_findings_not_reproduced": resolved,
            "violation_keys_seen": len(self.viol),
            "new_violation_keys": sorted(new)[:50],
        }
        if self.exhaustive is not None:
            cov["exhaustive"] = bool(self.exhaustive)
        cov.update(self.cov)
        ev = {
            "property_id": self.pid,
            "tier": self.tier,
            "seed": int(self.seed),
            "level": self.level,
            "coverage": cov,
            "assumptions": self.assumptions,
            "wall_s": round(wall, 2),
            "violations": len(new),
        }
        evdir = os.environ.get("VERIF_EVIDENCE_DIR") or os.path.join(VERIF, "evidence")
        os.makedirs(evdir, exist_ok=True)
        evp = os.path.join(evdir, self.pid + ".json")
        with open(evp + ".tmp", "w") as f:
            json.dump(ev, f, indent=1, default=str)
        os.replace(evp + ".tmp", evp)
        for ln in known_lines:
            print(ln)
        print("%s tier=%s seed=%d evaluations=%d distinct_nontrivial=%d violation_keys=%d new=%d known=%d "
              "inconclusive=%d wall=%.1fs" % (self.pid, self.tier, self.seed, self.evaluations, len(self.nontrivial),
                                             len(self.viol), len(new), len(known_lines), len(self.inconclusive), wall))
        if new:
            rd = os.path.join(os.environ.get("VERIF_REPLAY_DIR") or os.path.join(VERIF, "replays"), self.pid)
            os.makedirs(rd, exist_ok=True)
            for k in sorted(new)[:40]:
                v = new[k]
                h = hashlib.sha1(k.encode()).hexdigest()[:12]
                path = os.path.join(rd, h + ".json")
                with open(path, "w") as f:
                    json.dump({"property": self.pid, "key": k, "desc": v["desc"], "count": v["count"],
                               "seed": self.seed, "tier": self.tier, "case": v["witness"]}, f, indent=1, default=str)
                print("VIOLATION property=%s replay=%s key=%s :: %s" % (self.pid, path, k, str(v["desc"])[:300]))
            if len(new) > 40:
                print("... %d further distinct violation keys not printed" % (len(new) - 40))
            sys.stdout.flush()
            return 1
        if harness_fail:
            for h in harness_fail:
                print("HARNESS-FAILURE: " + h, file=sys.stderr)
            return 2
        return 0


def safe_name(key):
    n = re.sub(r"[^A-Za-z0-9_.+-]+", "_", key)[:80]
    return n + "-" + hashlib.sha1(key.encode()).hexdigest()[:8]


def _write_catalog(self):
    """Developer tool (--catalog): propose known-findings entries.  Never run
    by the registered commands and never touches known-findings.txt."""
    d = os.path.join(VERIF, ".work", "catalog", self.pid)
    os.makedirs(d, exist_ok=True)
    lines = []
    for k in sorted(self.viol):
        v = self.viol[k]
        doc = {"case": v["witness"], "desc": v["desc"], "count": v["count"]}
        if v["instances"]:
            doc["instances"] = sorted(v["instances"])
        fn = safe_name(k) + ".json"
        with open(os.path.join(d, fn), "w") as f:
            json.dump(doc, f, default=str)
        lines.append("open: property=%s key=%s witness=findings/%s/%s :: [n=%d] %s" %
                     (self.pid, k, self.pid, fn, v["count"], str(v["desc"])[:160].replace("\n", " ")))
    with open(os.path.join(d, "PROPOSED.txt"), "w") as f:
        f.write("\n".join(lines) + "\n")
    print("catalog: %d keys written to %s" % (len(lines), d))


Run.write_catalog = _write_catalog


def write_tmp(dirpath, name, data):
    p = os.path.join(dirpath, name)
    mode = "wb" if isinstance(data, bytes) else "w"
    with open(p, mode) as f:
        f.write(data)
    return p
