"""Round-trip primitives shared by C01 / C06 / C07: assemble one instruction
text at an address with the real assembler, walk the real disassembler over
the emitted bytes, re-assemble the disassembly."""
import re

from . import core
from .gen import corpus

INC = "inc=/repo/include"


def asm_text(vd, cpu, addr, text, bpa=1, optimize=False, delay_nop=True):
    """-> dict(ok, bytes, lo, out).  bytes = contiguous image from its lowest
    address (None if nothing was emitted)."""
    src = corpus.wrap(cpu, addr, text, bpa, delay_nop)
    opts = INC if corpus.needs_include(cpu) else ""
    if optimize:
        opts = (opts + ",opt").strip(",")
    r = vd.asm(src, opts)
    if r["rc"] != 0 or r["exit"]:
        return {"ok": False, "bytes": None, "lo": None, "out": r["out"], "exit": r["exit"], "src": src}
    img = r["img"]
    if not img:
        return {"ok": True, "bytes": b"", "lo": addr, "out": r["out"], "exit": False, "src": src}
    lo, hi = min(img), max(img)
    data = bytes(img.get(a, 0) for a in range(lo, hi + 1))
    return {"ok": True, "bytes": data, "lo": lo, "out": r["out"], "exit": False, "src": src, "holes": len(data) - len(img)}


ANNOT_RES = [
    re.compile(r"\s*\((?:offset|address|linear_address)=[^)]*\)"),
    re.compile(r"\s*\(bo=[^)]*\)"),
    re.compile(r"\s+--\s+.*$"),
    re.compile(r"\s*\(-?\d+\)\s*$"),
    re.compile(r"\s*\[0x[0-9a-fA-F]+\]\s*$"),
]


def strip_annotations(text):
    t = text
    for rx in ANNOT_RES:
        t = rx.sub("", t)
    return t.rstrip()


def norm_text(text):
    """numeric normalisation for C07: hex/dec spelling, leading zeros, case, whitespace."""
    m = re.search(r"\s--\s+(\S.*)$", text)
    if m:
        # "alias  --  canonical form": the decoder itself names the canonical rendering
        text = m.group(1)
    t = strip_annotations(text).lower()

    def num(m):
        s = m.group(0)
        neg = s.startswith("-")
        body = s[1:] if neg else s
        try:
            v = int(body, 0) if body.startswith("0x") else int(body, 10)
        except ValueError:
            return s
        return ("-" if neg else "") + str(v)
    t = re.sub(r"(?<![a-z_0-9.$])-?(0x[0-9a-f]+|\d+)(?![a-z_0-9])", num, t)
    t = re.sub(r"\$([0-9a-f]+)\b", lambda m: str(int(m.group(1), 16)), t)
    t = re.sub(r"\s+", " ", t).strip()
    t = re.sub(r"\s*,\s*", ",", t)
    return t


def walk(vd, cpu, addr, data):
    """Walk the disassembler over data placed at addr.  -> list of (a, n, text)."""
    return vd.walk(cpu, addr, addr + len(data) - 1, addr, data, texts=True)


def is_unknown(text):
    t = text.strip()
    return t == "" or t.startswith("???") or t.startswith("?")
