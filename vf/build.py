#!/usr/bin/env python3
"""Out-of-tree variant builds of /repo's *current working tree*.

Every check calls build(variant) first.  /repo itself is never written to.
Staleness is decided by content hashes of each translation unit and of the
headers its .d file lists (mtime is not trusted: patches may be applied and
reverted with arbitrary timestamps).  Exit/raise BuildError on failure; callers
turn that into harness failure (exit 2), never into a violation.
"""
import fcntl
import glob
import hashlib
import json
import os
import subprocess
import sys
import time
from concurrent.futures import ThreadPoolExecutor

REPO = os.environ.get("VERIF_REPO", "/repo")
VERIF = os.path.dirname(os.path.dirname(os.path.abspath(__file__)))
WORK = os.path.join(VERIF, ".work")
GUARD = "NAKEN_ASM_VERIF"

LIB_DIRS = ["asm", "common", "core", "disasm", "fileio", "simulate", "table"]

UBSAN = "bounds,integer-divide-by-zero,null,return,unreachable,vla-bound"
COMMON = ["-std=gnu++17", "-Wall", "-w", "-g", "-fno-omit-frame-pointer", "-D" + GUARD, "-DREADLINE"]

VARIANTS = {
    "san": {
        "cflags": COMMON + ["-O1", "-fsanitize=address", "-fsanitize=" + UBSAN,
                            "-fno-sanitize-recover=all"],
        "ldflags": ["-fsanitize=address", "-fsanitize=" + UBSAN],
    },
    "plain": {"cflags": COMMON + ["-O1"], "ldflags": []},
    "init0": {"cflags": COMMON + ["-O1", "-ftrivial-auto-var-init=zero"], "ldflags": []},
    "initP": {"cflags": COMMON + ["-O1", "-ftrivial-auto-var-init=pattern"], "ldflags": []},
}


class BuildError(Exception):
    pass


def _repo_tag():
    """Scratch worktrees (VERIF_REPO) get their own build directory."""
    if REPO == "/repo":
        return ""
    return "-" + hashlib.sha1(REPO.encode()).hexdigest()[:10]


def _sha(path, cache):
    h = cache.get(path)
    if h is None:
        try:
            with open(path, "rb") as f:
                h = hashlib.sha1(f.read()).hexdigest()
        except OSError:
            h = "missing"
        cache[path] = h
    return h


def _parse_d(dfile):
    try:
        txt = open(dfile).read()
    except OSError:
        return None
    txt = txt.replace("\\\n", " ")
    if ":" not in txt:
        return None
    deps = txt.split(":", 1)[1].split()
    return [d for d in deps if not d.startswith("/usr/")]


def _tu_hash(src, dfile, flags_id, cache):
    deps = _parse_d(dfile)
    if deps is None:
        return None
    h = hashlib.sha1(flags_id.encode())
    for d in sorted(set(deps + [src])):
        h.update(d.encode())
        h.update(_sha(d, cache).encode())
    return h.hexdigest()


def _compile(args):
    src, obj, dfile, cflags = args
    os.makedirs(os.path.dirname(obj), exist_ok=True)
    cmd = ["g++", "-c", src, "-o", obj, "-MMD", "-MF", dfile, "-I" + REPO] + cflags
    if src.endswith("main/naken_asm.cpp"):
        cmd.append('-DINCLUDE_PATH="%s/include"' % REPO)
    p = subprocess.run(cmd, stdout=subprocess.PIPE, stderr=subprocess.STDOUT, text=True)
    return src, p.returncode, p.stdout


def build(variant="san", verbose=False):
    """Build (or refresh) a variant; returns dict of artefact paths."""
    spec = VARIANTS[variant]
    out = os.path.join(WORK, "build", variant + _repo_tag())
    os.makedirs(out, exist_ok=True)
    lock = open(os.path.join(out, ".lock"), "w")
    fcntl.flock(lock, fcntl.LOCK_EX)
    try:
        return _build_locked(variant, spec, out, verbose)
    finally:
        fcntl.flock(lock, fcntl.LOCK_UN)
        lock.close()


def _build_locked(variant, spec, out, verbose):
    t0 = time.time()
    cflags = spec["cflags"]
    flags_id = json.dumps([cflags, spec["ldflags"], REPO])
    cache = {}
    srcs = []
    for d in LIB_DIRS:
        srcs += sorted(glob.glob(os.path.join(REPO, d, "*.cpp")))
    mains = [os.path.join(REPO, "main", "naken_asm.cpp"), os.path.join(REPO, "main", "naken_util.cpp")]
    harness = [os.path.join(VERIF, "harness", "vdrv.cpp")]
    harness = [h for h in harness if os.path.exists(h)]
    stamps_path = os.path.join(out, "stamps.json")
    try:
        stamps = json.load(open(stamps_path))
    except Exception:
        stamps = {}
    todo = []
    objs = {}
    for src in srcs + mains + harness:
        if src.startswith(REPO + "/"):
            rel = src[len(REPO) + 1:]
        else:
            rel = "harness/" + os.path.basename(src)
        obj = os.path.join(out, rel[:-4] + ".o")
        dfile = obj[:-2] + ".d"
        objs[src] = obj
        cur = _tu_hash(src, dfile, flags_id, cache) if os.path.exists(obj) else None
        if cur is None or stamps.get(rel) != cur:
            todo.append((src, obj, dfile, cflags, rel))
    # drop objects whose source disappeared
    if todo:
        with ThreadPoolExecutor(max_workers=16) as ex:
            results = list(ex.map(_compile, [t[:4] for t in todo]))
        failed = [(s, o) for s, rc, o in results if rc != 0]
        if failed:
            for s, _, _, _, rel in todo:
                stamps.pop(rel, None)
            json.dump(stamps, open(stamps_path, "w"))
            raise BuildError("compile failed (%s):\n%s" % (variant, "\n".join(o for _, o in failed)[:4000]))
        for src, obj, dfile, _, rel in todo:
            stamps[rel] = _tu_hash(src, dfile, flags_id, cache)
    lib = os.path.join(out, "naken_asm.a")
    libobjs = [objs[s] for s in srcs]
    arts = {
        "dir": out,
        "lib": lib,
        "naken_asm": os.path.join(out, "naken_asm"),
        "naken_util": os.path.join(out, "naken_util"),
        "vdrv": os.path.join(out, "vdrv"),
    }
    libset = hashlib.sha1("\n".join(libobjs).encode()).hexdigest()
    relink = bool(todo) or stamps.get("@libset") != libset
    for k in ("naken_asm", "naken_util") + (("vdrv",) if harness else ()):
        if not os.path.exists(arts[k]):
            relink = True
    if relink:
        if os.path.exists(lib):
            os.unlink(lib)
        p = subprocess.run(["ar", "cr", lib] + libobjs, stdout=subprocess.PIPE, stderr=subprocess.STDOUT, text=True)
        if p.returncode:
            raise BuildError("ar failed: " + p.stdout)
        links = [
            (arts["naken_asm"], [objs[mains[0]], lib], []),
            (arts["naken_util"], [objs[mains[1]], lib], ["-lreadline"]),
        ]
        if harness:
            links.append((arts["vdrv"], [objs[harness[0]], lib], ["-Wl,--wrap=exit"]))

        def _link(l):
            exe, ins, extra = l
            cmd = ["g++", "-o", exe] + ins + spec["ldflags"] + extra
            p = subprocess.run(cmd, stdout=subprocess.PIPE, stderr=subprocess.STDOUT, text=True)
            return exe, p.returncode, p.stdout
        with ThreadPoolExecutor(max_workers=3) as ex:
            for exe, rc, o in ex.map(_link, links):
                if rc:
                    stamps.pop("@libset", None)
                    json.dump(stamps, open(stamps_path, "w"))
                    raise BuildError("link failed %s: %s" % (exe, o[:4000]))
        stamps["@libset"] = libset
    json.dump(stamps, open(stamps_path, "w"))
    arts["rebuilt"] = len(todo)
    arts["build_s"] = round(time.time() - t0, 2)
    if verbose:
        print("build %s: %d TUs recompiled in %.1fs" % (variant, len(todo), arts["build_s"]), file=sys.stderr)
    return arts


def main():
    vs = sys.argv[1:]
    if not vs or vs == ["--all"]:
        vs = list(VARIANTS)
    for v in vs:
        try:
            build(v, verbose=True)
        except BuildError as e:
            print(str(e), file=sys.stderr)
            sys.exit(2)


if __name__ == "__main__":
    main()
