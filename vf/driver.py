"""Handle on one in-process driver (vdrv) worker: request/response, crash
attribution, restart.  One Vdrv per Python worker process."""
import binascii
import os
import resource
import select
import subprocess
import tempfile
import time

from . import proc


class Died(Exception):
    """The worker died (or timed out) while executing a request."""

    def __init__(self, why, san, stderr, timeout=False, signal=None):
        Exception.__init__(self, why)
        self.why = why
        self.san = san
        self.stderr = stderr
        self.timeout = timeout
        self.signal = signal


def hx(b):
    if isinstance(b, str):
        b = b.encode("latin-1")
    return binascii.hexlify(b).decode()


def unhx(s):
    return binascii.unhexlify(s)


class Vdrv(object):
    def __init__(self, exe, timeout_cpu=20, wall_s=120, env_extra=None):
        self.exe = exe
        self.timeout_cpu = timeout_cpu
        self.wall_s = wall_s
        self.env_extra = env_extra
        self.p = None
        self.errf = None
        self.requests = 0
        self.restarts = 0
        self.progf = None

    def start(self):
        self.errf = tempfile.TemporaryFile()
        if self.progf is None:
            pd = os.path.join(os.path.dirname(os.path.dirname(os.path.abspath(__file__))), ".work", "prog")
            os.makedirs(pd, exist_ok=True)
            fd, self.progf = tempfile.mkstemp(prefix="p%d_" % os.getpid(), dir=pd)
            os.write(fd, b"\0" * 64)
            os.close(fd)
        env_extra = dict(self.env_extra or {})
        env_extra["VDRV_PROGRESS"] = self.progf

        def pre():
            resource.setrlimit(resource.RLIMIT_CORE, (0, 0))
            resource.setrlimit(resource.RLIMIT_FSIZE, (256 << 20, 256 << 20))
        self.p = subprocess.Popen([self.exe, str(self.timeout_cpu)], stdin=subprocess.PIPE, stdout=subprocess.PIPE,
                                  stderr=self.errf, env=proc.base_env(env_extra), preexec_fn=pre,
                                  close_fds=True, bufsize=0)
        self.buf = b""

    def set_timeout(self, seconds):
        """CPU-time limit per request (applies to the running worker and to restarts)."""
        if seconds == self.timeout_cpu:
            return
        self.timeout_cpu = seconds
        if self.p is not None:
            self.request(["timeout", str(seconds)])

    def close(self):
        if self.p is not None:
            try:
                self.p.stdin.close()
            except Exception:
                pass
            try:
                self.p.kill()
            except Exception:
                pass
            self.p.wait()
            self.p = None
        if self.errf is not None:
            self.errf.close()
            self.errf = None

    def progress(self):
        """(case index, phase) last stored by a sweep request."""
        try:
            import struct
            with open(self.progf, "rb") as f:
                d = f.read(8)
            return struct.unpack("<II", d)
        except Exception:
            return (None, None)

    def __del__(self):
        try:
            if self.progf:
                os.unlink(self.progf)
        except Exception:
            pass

    def _readline(self):
        deadline = time.time() + self.wall_s
        fd = self.p.stdout.fileno()
        while True:
            i = self.buf.find(b"\n")
            if i >= 0:
                line = self.buf[:i]
                self.buf = self.buf[i + 1:]
                return line
            left = deadline - time.time()
            if left <= 0:
                return None
            r, _, _ = select.select([fd], [], [], min(left, 5.0))
            if r:
                chunk = os.read(fd, 1 << 20)
                if not chunk:
                    return b"" if not self.buf else self.buf
                self.buf += chunk

    def request(self, fields):
        """fields: list of str.  Returns dict of response k->v (str)."""
        if self.p is None:
            self.start()
        line = ("\t".join(fields) + "\n").encode("latin-1")
        try:
            self.p.stdin.write(line)
            self.p.stdin.flush()
        except (BrokenPipeError, OSError):
            return self._dead("broken pipe")
        self.requests += 1
        resp = self._readline()
        if resp is None:
            return self._dead("wall-clock watchdog", wall=True)
        if resp == b"" or (self.p.poll() is not None and b"=" not in resp):
            return self._dead("eof")
        d = {}
        for kv in resp.decode("latin-1").split("\t"):
            k, _, v = kv.partition("=")
            d[k] = v
        if d.get("timeout") == "1":
            return self._dead("cpu timeout", timeout=True)
        return d

    def _dead(self, why, timeout=False, wall=False):
        try:
            self.p.kill()
        except Exception:
            pass
        rc = self.p.wait()
        self.errf.seek(0)
        err = self.errf.read(1 << 20).decode("latin-1")
        san = proc.parse_sanitizer(err)
        self.close()
        self.restarts += 1
        sig = -rc if rc is not None and rc < 0 else None
        if wall:
            e = Died("wall", None, err, timeout=False, signal=None)
        else:
            e = Died(why, san, err, timeout=timeout, signal=sig)
        e.progress = self.progress()
        raise e

    # ---- convenience wrappers ----
    def asm(self, src, opts=""):
        d = self.request(["asm", "-", opts, hx(src)])
        return parse_asm(d)

    def dis(self, cpu, addr, data):
        d = self.request(["dis", cpu, str(addr), hx(data)])
        if "err" in d:
            raise RuntimeError("vdrv dis: " + d["err"])
        return {"n": int(d["n"]), "cmin": int(d["cmin"]), "cmax": int(d["cmax"]), "term": d["term"] == "1",
                "exit": d["exit"] == "1", "text": unhx(d["text"]).decode("latin-1"),
                "out": unhx(d.get("out", "")).decode("latin-1")}

    def disr(self, cpu, start, end, addr, data):
        d = self.request(["disr", cpu, str(start), str(end), str(addr), hx(data)])
        if "err" in d:
            raise RuntimeError("vdrv disr: " + d["err"])
        return {"exit": d["exit"] == "1", "out": unhx(d["out"]).decode("latin-1")}

    def sim(self, cpu, regs, mem, getregs, steps=1, show=0, breakio=""):
        rs = ",".join("%s=%d" % (k, v) for k, v in regs)
        ms = ";".join("%x:%s" % (a, hx(b)) for a, b in mem)
        d = self.request(["sim", cpu, str(show), str(steps), rs, ms, ",".join(getregs), str(breakio)])
        if "err" in d:
            raise RuntimeError("vdrv sim: " + d["err"])
        regs_out = {}
        for kv in d["regs"].split(","):
            if kv:
                k, _, v = kv.partition("=")
                regs_out[k] = int(v)
        diff = {}
        for kv in d["diff"].split(";"):
            if kv:
                a, _, v = kv.partition(":")
                diff[int(a, 16)] = int(v, 16)
        return {"rc": int(d["rc"]), "exit": d["exit"] == "1", "exitcode": int(d["exitcode"]),
                "badreg": int(d["badreg"]), "regs": regs_out, "diff": diff,
                "dump": unhx(d["dump"]).decode("latin-1"), "runout": unhx(d["runout"]).decode("latin-1")}

    def walk(self, cpu, start, end, addr, data, texts=False):
        d = self.request(["walk", cpu, str(start), str(end), str(addr), hx(data), "1" if texts else "0"])
        if "err" in d:
            raise RuntimeError("vdrv walk: " + d["err"])
        steps = []
        for ent in d["steps"].split(";"):
            if ent:
                a, _, n = ent.partition(":")
                steps.append((int(a, 16), int(n)))
        if not texts:
            return steps
        tx = []
        for t in d.get("texts", "").split("\x1f"):
            if t:
                tx.append(unhx(t[1:]).decode("latin-1") if t[0] == "h" else t[1:])
        while len(tx) < len(steps):
            tx.append("")
        return [(a, n, t) for (a, n), t in zip(steps, tx)]

    def sweep(self, cpu, addr, first, count, tail, mode, maxlen, pos=0):
        d = self.request(["sweep", cpu, str(addr), str(first), str(count), hx(tail), str(mode), str(maxlen), str(pos)])
        if "err" in d:
            raise RuntimeError("vdrv sweep: " + d["err"])
        hist = {}
        for kv in d["hist"].split(";"):
            if kv:
                k, _, v = kv.partition(":")
                hist[int(k)] = int(v)
        bad = []
        for ent in d["bad"].split(";"):
            if ent:
                f = ent.split(":")
                bad.append((int(f[0]), f[1], [int(x) for x in f[2:]]))
        rows = None
        if mode & 1:
            rows = []
            for ent in d["rows"].split("\x1f"):
                if not ent:
                    continue
                n, _, t = ent.partition(":")
                if t[:1] == "h":
                    txt = unhx(t[1:]).decode("latin-1")
                else:
                    txt = t[1:]
                rows.append((int(n), txt))
        return {"unit": int(d["unit"]), "hist": hist, "bad": bad, "rows": rows}

    def cpus(self):
        d = self.request(["cpus"])
        out = []
        raw = d["cpus"]
        for ent in raw.split(";"):
            if not ent.strip():
                continue
            f = ent.split(":")
            out.append({"name": f[0], "endian": int(f[1]), "bpa": int(f[2]), "align": int(f[3]),
                        "sim": f[4] == "1", "srec": int(f[5]), "dis": f[6] == "1"})
        return out


def parse_asm(d):
    r = {"rc": int(d["rc"]), "p1": int(d["p1"]), "p2": int(d["p2"]), "l1": int(d["l1"]), "l2": int(d["l2"]),
         "exit": d["exit"] == "1", "exitcode": int(d["exitcode"]), "bpa": int(d["bpa"]),
         "endian": int(d["endian"]), "cpu": int(d["cpu"]), "low": int(d["low"]), "high": int(d["high"]),
         "addr": int(d["addr"]), "out": unhx(d.get("out", "")).decode("latin-1")}
    img = {}
    for ent in d.get("img", "").split(";"):
        if ent:
            a, _, h = ent.partition(":")
            a = int(a, 16)
            for i, b in enumerate(unhx(h)):
                img[a + i] = b
    r["img"] = img
    syms = []
    for ent in d.get("syms", "").split(";"):
        if ent:
            f = ent.split(":")
            syms.append((unhx(f[0]).decode("latin-1"), int(f[1]), int(f[2]), int(f[3])))
    r["syms"] = syms
    ev = []
    for ent in d.get("ev", "").split(";"):
        if ent:
            f = ent.split(":")
            ev.append({"pass": int(f[0]), "line": int(f[1]), "name": unhx(f[2]).decode("latin-1"),
                       "value": int(f[3]), "found": int(f[4]), "recorded": int(f[5])})
    r["ev"] = ev
    return r


def image_bytes(img):
    """contiguous bytes from lowest to highest address (gaps as None)."""
    if not img:
        return 0, b""
    lo, hi = min(img), max(img)
    return lo, bytes(img.get(a, 0) for a in range(lo, hi + 1))
