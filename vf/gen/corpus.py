"""Instruction-form corpus: tests/comparison/*.txt lines (45 CPUs) and the
wrappers the repo's own test script uses; operand substitution."""
import glob
import os
import re

from .. import build as vbuild

REPO = vbuild.REPO

LIT_RE = re.compile(r"(?<![A-Za-z_0-9.$])-?(0x[0-9a-fA-F]+|\d+)(?![A-Za-z_0-9:])")
REG_RE = re.compile(r"(?<![A-Za-z_0-9.$])([a-zA-Z$]{1,3})(\d{1,2})(?![A-Za-z_0-9:])")

BOUNDARY = [0, 1, 2, 3, 4, 5, 7, 8, 9, 15, 16, 17, 31, 32, 33, 63, 64, 65, 127, 128, 129, 255, 256, 257, 511, 512, 1023, 1024,
            2047, 2048, 4095, 4096, 8191, 8192, 16383, 16384, 32767, 32768, 32769, 65535, 65536, 65537,
            0x55, 0xaa, 0x1234, 0xfffe, 0x7ffffe, 0xfffffe, 0x1000000, 0x7fffffff, 0x80000000, 0xffffffff, 0x100000000,
            -1, -2, -3, -4, -5, -8, -9, -16, -17, -32, -33, -64, -65, -128, -129, -256, -257, -512, -513, -1024, -2048, -2049,
            -4096, -4097, -32768, -32769, -65536, -0x80000000]


def load():
    """-> {cpu: [instruction text, ...]} (order of the files)."""
    out = {}
    for path in sorted(glob.glob(os.path.join(REPO, "tests", "comparison", "*.txt"))):
        cpu = os.path.basename(path)[:-4]
        lines = []
        for ln in open(path, errors="replace"):
            ln = ln.rstrip("\n")
            if "|" not in ln:
                continue
            instr = ln.split("|")[0].strip()
            if instr:
                lines.append(instr)
        if lines:
            out[cpu] = lines
    return out


def wrap(cpu, addr, text, bpa=1, delay_nop=True):
    """Source for one instruction (or several lines) at byte address addr,
    following tests/comparison/run_test.sh."""
    src = [".%s" % cpu]
    if cpu == "epiphany":
        src.append('.include "epiphany/epiphany.inc"')
    if cpu == "8051":
        src.append('.include "8051/8051.inc"')
    if addr:
        src.append(".org 0x%x" % (addr // bpa))
    if cpu == "lc3" and not addr:
        # the repo's test places one word first; keep an explicit origin instead
        pass
    body = text
    if not re.match(r"^\s*[A-Za-z_][A-Za-z_0-9]*:", text):
        src.append("start:")
    src.append("  " + body if not body.startswith("main:") else body)
    if delay_nop and cpu in ("pic32", "ps2_ee", "mips32", "mips", "n64_rsp"):
        first = text.strip().split()[0] if text.strip() else ""
        if text.startswith("main:") or first[:1] in ("j", "b"):
            src.append("  nop")
    return "\n".join(src) + "\n"


def needs_include(cpu):
    return cpu in ("epiphany", "8051")


def mnemonic(text):
    t = text.strip()
    t = re.sub(r"^[A-Za-z_][A-Za-z_0-9]*:\s*", "", t)
    return t.split()[0].lower() if t.split() else ""


def shape(text):
    """operand shape: numbers erased, register numbers erased, whitespace squeezed."""
    t = text.strip().lower()
    t = re.sub(r"^[a-z_][a-z_0-9]*:\s*", "", t)
    t = re.sub(r"\(offset=[^)]*\)|\(address=[^)]*\)|\(-?\d+\)", "", t)
    t = LIT_RE.sub("#", t)
    t = re.sub(r"(?<![a-z_0-9.$])([a-z$]{1,3})\d{1,2}(?![a-z_0-9:])", r"\1N", t)
    t = re.sub(r"\s+", " ", t)
    return t.strip()


def literals(text):
    return list(LIT_RE.finditer(text))


def subst_literal(text, m, value):
    if value < 0:
        s = "-%d" % -value
    elif value > 9 and (value & (value - 1)) == 0 or value > 255:
        s = "0x%x" % value
    else:
        s = "%d" % value
    return text[:m.start()] + s + text[m.end():]


def reg_classes(lines):
    """prefix -> sorted set of numbers seen in this CPU's corpus."""
    cls = {}
    for ln in lines:
        for m in REG_RE.finditer(ln):
            cls.setdefault(m.group(1).lower(), set()).add(int(m.group(2)))
    return {k: sorted(v) for k, v in cls.items() if len(v) >= 3}


def variants(text, classes, rng, n_lit, n_reg):
    """Operand substitutions of one corpus line: (variant text, what)."""
    out = []
    lits = literals(text)
    # skip literal positions that are part of a label definition
    for m in lits:
        try:
            orig = int(m.group(0), 0)
        except ValueError:
            continue
        vals = BOUNDARY if n_lit is None else rng.sample(BOUNDARY, min(n_lit, len(BOUNDARY)))
        for v in vals:
            if v != orig:
                out.append((subst_literal(text, m, v), "lit"))
    regs = [m for m in REG_RE.finditer(text) if m.group(1).lower() in classes]
    for m in regs:
        nums = classes[m.group(1).lower()]
        cur = int(m.group(2))
        cand = [k for k in nums if k != cur]
        if n_reg is not None:
            cand = rng.sample(cand, min(n_reg, len(cand)))
        for k in cand:
            out.append((text[:m.start(2)] + str(k) + text[m.end(2):], "reg"))
    return out
