"""Input generators shared by C16 (naken_asm robustness) and C17 (naken_util
robustness): enumerated structured blow-ups, token-level mutation of valid
sources, unstructured bytes, and the hang-eligibility test of DESIGN.md C16 L."""
import glob
import os
import re

from .. import build as vbuild
from . import corpus

REPO = vbuild.REPO

CPUS = ("msp430 msp430x 1802 4004 6502 65816 6800 6809 68hc08 68000 8008 8041 8048 8051 86000 agc arc arm arm64 avr8 cell "
        "copper cp1610 dotnet dspic ebpf epiphany f100_l f8 java lc3 m8c mips mips32 n64_rsp pic32 ps2_ee pdp8 pdp11 pdk13 "
        "pdk14 pdk15 pdk16 pic14 pic18 pic24 powerpc propeller propeller2 ps2_ee_vu0 ps2_ee_vu1 riscv riscv64 sh4 sparc stm8 "
        "super_fx sweet16 thumb tms340 tms1000 tms1100 tms9900 unsp webasm xtensa z80").split()

LENS_T = [127, 128, 255, 256, 511, 512, 513, 1023, 1024, 1025, 4096, 65536]
LENS_Q = [128, 512, 513, 1024, 4096]
DEPTH_T = [1, 2, 3, 127, 128, 129, 130, 1000]
DEPTH_Q = [2, 128, 129, 1000]
TYPES = ["hex", "elf", "bin", "macho", "srec", "amiga", "wdc", "uf2"]

# ------------------------------------------------------------------ hang eligibility

BULK_RE = re.compile(r"(?i)(?<![A-Za-z0-9_])\.?(org|resb|resw|ds\d*|dss|repeat|align\w*|data_fill|binfile|low_address|"
                     r"high_address|include)(?![A-Za-z0-9_])")
SIMPLE_RE = re.compile(r"(?i)^\s*(?:[A-Za-z_][A-Za-z_0-9]{0,40}:)?\s*\.(org|resb|resw|repeat|align|align_bits|align_bytes|data_fill)"
                       r"\s+((?:0x[0-9a-f]{1,8}|\d{1,9})(?:\s*,\s*(?:0x[0-9a-f]{1,8}|\d{1,9}))*)\s*(?:;.*)?$")
INCL_RE = re.compile(r'(?i)^\s*\.include\s+"[^"\n]{1,200}"\s*(?:;.*)?$')


def _lit(s):
    return int(s, 16) if s.lower().startswith("0x") else int(s, 10)


def hang_eligible(text, extra_texts=()):
    """True when no line of the source can legitimately ask for bulk work: every line that names a
    range/count directive has the plain form '.dir literal[, literal]' with an origin below 2^20 and
    counts <= 4096, and the product of all repeat counts is <= 65536."""
    prod = 1
    for t in (text,) + tuple(extra_texts):
        if len(t) > (1 << 17):
            return False
        for ln in re.split(r"[\r\n]", t):
            if not BULK_RE.search(ln):
                continue
            if INCL_RE.match(ln):
                continue
            m = SIMPLE_RE.match(ln)
            if not m:
                return False
            vals = [_lit(x) for x in re.split(r"\s*,\s*", m.group(2))]
            d = m.group(1).lower()
            lim = (1 << 20) if d == "org" else 4096
            if d.startswith("align"):
                lim = 16
            if any(v > lim for v in vals):
                return False
            if d == "repeat":
                prod *= max(1, vals[0])
                if prod > 65536:
                    return False
    return True


# ------------------------------------------------------------------ seeds

def sample_seeds(max_bytes=6000):
    """[(name, cpu_hint, text, extra_args)] from /repo/samples (small files only, so witnesses stay small)."""
    out = []
    for p in sorted(glob.glob(os.path.join(REPO, "samples", "*", "*.asm"))):
        try:
            data = open(p, "rb").read()
        except OSError:
            continue
        if len(data) > max_bytes:
            continue
        rel = os.path.relpath(os.path.dirname(p), REPO)
        out.append((os.path.relpath(p, REPO), os.path.basename(os.path.dirname(p)), data.decode("latin-1"),
                    ["-I", "@REPO@/include", "-I", "@REPO@/" + rel]))
    return out


def corpus_seeds():
    """{cpu: [instruction text]}"""
    return corpus.load()


def one_liner(cpu, text):
    return corpus.wrap(cpu, 0, text)


# ------------------------------------------------------------------ token-level mutation

TOK_RE = re.compile(r'"[^"\n]*"|\'[^\'\n]*\'|[A-Za-z_.$][A-Za-z_0-9.$]*|0[xX][0-9a-fA-F]+|\d+|\s+|.', re.S)
NUM_POOL = ["0", "1", "-1", "2", "7", "8", "15", "16", "31", "32", "255", "256", "4095", "4096", "32767", "32768", "65535", "65536",
            "0x7fffffff", "0x80000000", "0xffffffff", "0x100000000", "-2147483648", "-2147483649", "0xffffffffffffffff",
            "0x7fffffffffffffff", "1.5", "0.0", "1e10", "0b101", "077", "100h", "$ff", "'a'", "0x", "0b", "1.", ".5"]
PUNCT = list(",;:()[]{}#@+-*/%<>=!&|^~\"'.\\$ \t\n")
DIRECTIVES = [".if 1", ".if 0", ".ifdef X", ".ifndef X", ".else", ".endif", ".endm", ".macro M", ".macro M(a,b)", "M(1,2)", "M",
              ".repeat 3", ".endr", ".define X 1", ".define X X", ".define F(a) a+1", "F(1)", "X", ".scope", ".ends", ".func f", ".endf",
              ".set X=1", "X equ 1", ".export X", ".entry_point X", ".big_endian", ".little_endian", ".list", ".code", ".bss",
              ".db X", ".dw 1,2", ".dc32 1", ".dc64 1", ".ascii \"ab\"", ".asciiz \"ab\"", ".align 4", ".resb 3", ".resw 3",
              ".org 0x100", ".low_address 0", ".high_address 0x1000", ".pragma foo", ".device foo", ".include \"t.asm\"",
              ".binfile \"t.asm\"", ".include \"nonexistent.inc\"", ".end", "/*", "*/", ".msp430_cpu4", ".varuint 5", ".dc 1", ".dq 1.5",
              ".data_fill 8, 1", ".define", ".macro", ".if", ".ifdef", ".include", ".org", ".db", ".repeat", ".set", ".equ", ".export",
              ".entry_point", ".align", ".scope", ".func", ".binfile", "#define X 1", "#ifdef X", "#endif", "#include \"t.asm\"",
              ".65816", ".65xx", ".68hc08", ".arm", ".thumb", ".z80", ".riscv", ".mips32", ".ps2_ee_vu0", ".cell", ".webasm", ".java"]
OPS = ["tok-del", "tok-dup", "tok-swap", "tok-num", "tok-long", "operands", "line-del", "line-dup", "line-splice", "byte-flip",
       "truncate", "punct", "directive", "parens", "cpu-swap", "tok-from-other", "case", "unary"]


def tokenize(text):
    return TOK_RE.findall(text)


def _sig_idx(toks):
    return [i for i, t in enumerate(toks) if not t.isspace()]


def mutate(rng, text, other_text=None, nops=None):
    """Apply 1..3 operators; returns (new_text, [operator names])."""
    ops_applied = []
    n = nops or rng.choice([1, 1, 1, 2, 2, 3])
    for _ in range(n):
        op = rng.choice(OPS)
        lines = text.split("\n")
        toks = tokenize(text)
        sig = _sig_idx(toks)
        if not sig:
            break
        if op == "tok-del":
            del toks[rng.choice(sig)]
            text = "".join(toks)
        elif op == "tok-dup":
            i = rng.choice(sig)
            k = rng.choice([1, 1, 2, 5, 20])
            toks[i:i + 1] = [toks[i]] + [rng.choice(["", " ", ","]) + toks[i]] * k
            text = "".join(toks)
        elif op == "tok-swap":
            i, j = rng.choice(sig), rng.choice(sig)
            toks[i], toks[j] = toks[j], toks[i]
            text = "".join(toks)
        elif op == "tok-num":
            nums = [i for i in sig if toks[i][0].isdigit()] or sig
            toks[rng.choice(nums)] = rng.choice(NUM_POOL)
            text = "".join(toks)
        elif op == "tok-long":
            i = rng.choice(sig)
            L = rng.choice([100, 127, 128, 255, 256, 511, 512, 513, 600, 1023, 1024, 1025, 2000, 4096])
            t = toks[i]
            if t[0] in "\"'":
                t = t[0] + "A" * L + (t[0] if rng.random() < 0.8 else "")
            elif t[0].isdigit():
                t = t + rng.choice(["0", "1", "9", "f"]) * L
            elif t[0].isalpha() or t[0] in "_.":
                t = t + rng.choice(["x", "_", "9", "."]) * L
            else:
                t = t * L
            toks[i] = t
            text = "".join(toks)
        elif op == "operands":
            li = rng.randrange(len(lines))
            k = rng.choice([1, 2, 3, 4, 5, 8, 16, 17, 33, 65, 130])
            what = rng.choice(["r1", "1", "#1", "(r1)", "[r1]", "a", "@r1+", "x", "-", "(", "#", "1(r2)", "r1:r2", "{r1}", "$1", "\"s\""])
            sep = rng.choice([", ", ",", " "])
            lines[li] = lines[li] + sep + sep.join([what] * k)
            text = "\n".join(lines)
        elif op == "line-del":
            del lines[rng.randrange(len(lines))]
            text = "\n".join(lines)
        elif op == "line-dup":
            li = rng.randrange(len(lines))
            lines[li:li + 1] = [lines[li]] * rng.choice([2, 3, 10])
            text = "\n".join(lines)
        elif op == "line-splice":
            if len(lines) > 1:
                li = rng.randrange(len(lines) - 1)
                lines[li:li + 2] = [lines[li] + rng.choice(["", " ", ", "]) + lines[li + 1]]
            text = "\n".join(lines)
        elif op == "byte-flip":
            if text:
                b = bytearray(text.encode("latin-1"))
                for _k in range(rng.choice([1, 1, 2, 4])):
                    p = rng.randrange(len(b))
                    b[p] = rng.choice([b[p] ^ (1 << rng.randrange(8)), rng.randrange(256), 0, 0xff, 0x0a, 0x22, 0x27])
                text = b.decode("latin-1")
        elif op == "truncate":
            text = text[:rng.randrange(len(text) + 1)]
        elif op == "punct":
            i = rng.choice(sig)
            toks.insert(i, rng.choice(PUNCT) * rng.choice([1, 1, 1, 2, 3]))
            text = "".join(toks)
        elif op == "directive":
            li = rng.randrange(len(lines) + 1)
            lines.insert(li, rng.choice(DIRECTIVES))
            text = "\n".join(lines)
        elif op == "parens":
            i = rng.choice(sig)
            d = rng.choice([1, 2, 10, 100, 200])
            toks[i] = "(" * d + toks[i] + ")" * rng.choice([d, d, d - 1, 0])
            text = "".join(toks)
        elif op == "cpu-swap":
            cpu = rng.choice(CPUS)
            m = re.search(r"(?m)^\s*\.(%s)\b" % "|".join(re.escape(c) for c in CPUS), text)
            if m:
                text = text[:m.start(1)] + cpu + text[m.end(1):]
            else:
                text = ".%s\n%s" % (cpu, text)
        elif op == "tok-from-other":
            if other_text:
                ot = tokenize(other_text)
                os_ = _sig_idx(ot)
                if os_:
                    toks[rng.choice(sig)] = ot[rng.choice(os_)]
                    text = "".join(toks)
        elif op == "case":
            i = rng.choice(sig)
            toks[i] = toks[i].swapcase()
            text = "".join(toks)
        elif op == "unary":
            i = rng.choice(sig)
            toks[i] = rng.choice(["-", "~", "!", "+", "#", "@", "*", "&", "<", ">"]) * rng.choice([1, 2, 50]) + toks[i]
            text = "".join(toks)
        ops_applied.append(op)
    return text, ops_applied


# ------------------------------------------------------------------ unstructured bytes

ALPH_ASM = "abcdefrsxyz0123456789 \t\n\n,.;:()[]#@+-*/%<>=!&|^~\"'$_\\{}"


def random_bytes(rng, cpu):
    style = rng.choice(["raw", "printable", "asm", "asm", "lines"])
    n = rng.choice([1, 2, 16, 64, 200, 512, 1000, 4096])
    if style == "raw":
        body = bytes(rng.getrandbits(8) for _ in range(n)).decode("latin-1")
    elif style == "printable":
        body = "".join(chr(rng.randrange(32, 127)) for _ in range(n))
    elif style == "asm":
        body = "".join(rng.choice(ALPH_ASM) for _ in range(n))
    else:
        words = ["mov", "add", "nop", "r1", "r2", "#1", "0x10", "(", ")", ",", "[", "]", "a", "x", "+", "-", "lbl:", "lbl", ".db", ".dw",
                 "\"s\"", "'c'", "@", "$", "%", ".if", ".endif", ".macro", ".endm", ".define", "jmp", "call", "ld", "st", "push", "b", "bra"]
        body = "\n".join(" ".join(rng.choice(words) for _ in range(rng.randint(1, 8))) for _ in range(max(1, n // 16)))
    if cpu:
        return ".%s\n%s" % (cpu, body), style
    return body, style


# ------------------------------------------------------------------ enumerated structured blow-ups

def _case(cid, cls, src, cpu=None, args=None, files=None, note=None):
    c = {"id": cid, "cls": cls, "src": src, "cpu": cpu, "args": args if args is not None else ["-o", "out.hex", "t.asm"]}
    if files:
        c["files"] = files
    return c


TAIL = "  nop\n  nop\n  nop\n"


def enumerated(quick, corp):
    """Deterministic list of structured blow-up cases (independent of the seed)."""
    out = []
    lens = LENS_Q if quick else LENS_T
    depths = DEPTH_Q if quick else DEPTH_T
    H = ".msp430\n"
    # --- lengths
    for L in lens:
        X = "X" * L
        idshapes = {
            "label": "%s:\n  nop\n  jmp %s\n" % (X, X),
            "operand-ident": "  mov.w #%s, r5\n" % X,
            "dw-ident": ".dw %s\n" % X,
            "equ": "%s equ 1\n.db %s\n" % (X, X),
            "set": ".set %s=1\n.db %s\n" % (X, X),
            "define-name": ".define %s 1\n.db %s\n" % (X, X),
            "define-value": ".define V %s\n.db V\n" % ("1+" * (L // 2) + "1"),
            "define-param": ".define F(%s) %s+1\n.db F(2)\n" % (X, X),
            "define-arg": ".define F(a) a+1\n.db F(%s)\n" % X,
            "ifdef": ".ifdef %s\n.db 1\n.endif\n" % X,
            "if-expr": ".if %s\n.db 1\n.endif\n" % ("1+" * (L // 2) + "1"),
            "macro-name": ".macro %s\n  nop\n.endm\n%s\n" % (X, X),
            "macro-param": ".macro M(%s)\n  mov.w #%s, r5\n.endm\nM(1)\n" % (X, X),
            "macro-arg": ".macro M(a)\n  mov.w #a, r5\n.endm\nM(%s)\n" % X,
            "macro-arg-num": ".macro M(a)\n  mov.w #a, r5\n.endm\nM(%s)\n" % ("1" * L),
            "macro-body-line": ".macro M\n  mov.w #%s, r5\n.endm\nM\n" % ("1+" * (L // 2) + "1"),
            "macro-body-lines": ".macro M\n%s.endm\nM\n" % ("  nop\n" * (L // 6 + 1)),
            "export": "%s:\n.export %s\n" % (X, X),
            "func": ".func %s\n  nop\n.endf\n" % X,
            "scope-label": ".scope\n%s:\n  jmp %s\n.ends\n" % (X, X),
            "mnemonic": "  %s r1, r2\n" % X,
            "directive": ".%s 1\n" % X,
            "pragma": ".pragma %s\n" % X,
            "device": ".device %s\n" % X,
            "cpu-name": ".%s\n" % ("msp430" + X),
            "dec": ".dw %s\n" % ("1" * L),
            "hex": ".dw 0x%s\n" % ("f" * L),
            "bin": ".dw 0b%s\n" % ("1" * L),
            "hex-h": ".dw 0%sh\n" % ("f" * L),
            "dollar-hex": ".dw $%s\n" % ("f" * L),
            "float-small": ".dc32 0.%s1\n" % ("0" * L),
            "float-long": ".dc32 1.%s\n" % ("0" * L),
            "float-digits": ".dq %s.5\n" % ("9" * L),
            "string-db": ".db \"%s\"\n" % ("A" * L),
            "string-ascii": ".ascii \"%s\"\n" % ("A" * L),
            "string-asciiz": ".asciiz \"%s\"\n" % ("A" * L),
            "string-unterminated": ".db \"%s\n" % ("A" * L),
            "string-escapes": ".db \"%s\"\n" % ("\\n" * (L // 2)),
            "char-long": ".db '%s'\n" % ("A" * L),
            "string-operand": "  mov.w #\"%s\", r5\n" % ("A" * L),
            "include-name": ".include \"%s\"\n" % ("A" * L),
            "include-path": ".include \"%s\"\n" % ("d/" * (L // 2) + "f"),
            "binfile-name": ".binfile \"%s\"\n" % ("A" * L),
            "comment": "  nop ; %s\n" % ("c" * L),
            "c-comment": "  nop /* %s */\n" % ("c" * L),
            "c-comment-open": "  nop /* %s\n" % ("c" * L),
            "slash-comment": "  nop // %s\n" % ("c" * L),
            "spaces": "%snop\n" % (" " * L),
            "commas": ".db %s\n" % ("," * L),
            "db-many": ".db %s\n" % ",".join(["1"] * min(L, 4096)),
            "open-parens": ".dw %s1\n" % ("(" * L),
            "unary-minus": ".dw %s1\n" % ("-" * L),
            "unary-tilde": ".dw %s1\n" % ("~" * L),
            "dots": "%s\n" % ("." * L),
            "hashes": "  mov.w %s1, r5\n" % ("#" * L),
            "no-newline-long": "nop " * (L // 4),
            "blank-lines": "\n" * L + "  nop\n",
            "cr-lines": "  nop\r" * (L // 5 + 1),
            "nul-bytes": "  nop\n" + "\0" * L + "\n  nop\n",
            "high-bytes": "  nop\n" + "\xff" * L + "\n  nop\n",
            "ops-chain": ".dw 1%s\n" % ("+1" * (L // 2)),
            "shift-chain": ".dw 1%s\n" % ("<<1" * (L // 3)),
        }
        for name, body in idshapes.items():
            out.append(_case("len/%s/%d" % (name, L), "len/" + name, H + body + TAIL, "msp430"))
        for op in ["%", "/", "+", "*", "<<", ">>", "&", "|", "^", "-"]:
            for rhs_name, rhs in (("float-underflow", "0." + "0" * L + "1"), ("digits", "9" * L), ("float-big", "9" * L + ".0")):
                if L > 600:
                    continue
                out.append(_case("len/expr%s/%s/%d" % (op, rhs_name, L), "len/expr-" + rhs_name,
                                 H + ".db 7 %s %s\n.dc32 7 %s %s\n" % (op, rhs, op, rhs) + TAIL, "msp430"))
        # command line lengths
        out.append(_case("len/cli-outfile/%d" % L, "len/cli", H + TAIL, "msp430", ["-o", "o" * min(L, 5000) + ".hex", "t.asm"]))
        out.append(_case("len/cli-incpath/%d" % L, "len/cli", H + ".include \"x.inc\"\n" + TAIL, "msp430",
                         ["-I", "i" * min(L, 60000), "-o", "out.hex", "t.asm"]))
        out.append(_case("len/cli-incpath-joined/%d" % L, "len/cli", H + ".include \"x.inc\"\n" + TAIL, "msp430",
                         ["-I" + "i" * min(L, 60000), "-o", "out.hex", "t.asm"]))
        out.append(_case("len/cli-infile/%d" % L, "len/cli", H + TAIL, "msp430", ["-o", "out.hex", "n" * min(L, 60000) + ".asm"]))
        out.append(_case("len/cli-type/%d" % L, "len/cli", H + TAIL, "msp430", ["-type", "t" * min(L, 60000), "t.asm"]))
        out.append(_case("len/cli-unknown/%d" % L, "len/cli", H + TAIL, "msp430", ["-" + "z" * min(L, 60000), "t.asm"]))
        out.append(_case("len/cli-infile-noext/%d" % L, "len/cli", H + TAIL, "msp430", ["t.asm"],
                         files={("n" * min(L, 250)): H + TAIL}) if L <= 255 else
                   _case("len/cli-list/%d" % L, "len/cli", H + "%s:\n" % ("L" * min(L, 500)) + TAIL, "msp430", ["-l", "-o", "out.hex", "t.asm"]))
    # --- operand counts per cpu
    counts = [4, 5, 17, 33] if quick else [1, 2, 3, 4, 5, 6, 8, 9, 16, 17, 32, 33, 64, 65, 128, 300]
    styles = ["r1", "1"] if quick else ["r1", "1", "(r1)", "#1", "[r1]", "a", "x+1"]
    for cpu in CPUS:
        mns = []
        for t in corp.get(cpu, [])[:400]:
            m = corpus.mnemonic(t)
            if m and m not in mns:
                mns.append(m)
        mns = (mns[:1] + mns[len(mns) // 2:len(mns) // 2 + 1]) if mns else []
        if not quick and corp.get(cpu):
            mns = mns + ["nop"]
        if not mns:
            mns = ["mov", "add"]
        for mn in mns[:2 if quick else 3]:
            for k in counts:
                for st in styles:
                    out.append(_case("opcount/%s/%s/%s/%d" % (cpu, mn, st, k), "opcount",
                                     ".%s\nstart:\n  %s %s\n" % (cpu, mn, ", ".join([st] * k)), cpu))
    # --- nesting depths
    for D in depths:
        chain = "".join(".define A%d A%d\n" % (i, i + 1) for i in range(D)) + ".define A%d 5\n" % D
        out.append(_case("depth/define-chain-db/%d" % D, "depth/define", H + chain + ".db A0\n" + TAIL, "msp430"))
        out.append(_case("depth/define-chain-operand/%d" % D, "depth/define", H + chain + "  mov.w #A0, r5\n" + TAIL, "msp430"))
        out.append(_case("depth/define-chain-if/%d" % D, "depth/define", H + chain + ".if A0\n  nop\n.endif\n" + TAIL, "msp430"))
        fchain = "".join(".define F%d(a) F%d(a)+1\n" % (i, i + 1) for i in range(D)) + ".define F%d(a) a\n" % D
        out.append(_case("depth/define-param-chain/%d" % D, "depth/define", H + fchain + ".db F0(1)\n" + TAIL, "msp430"))
        mchain = "".join(".macro M%d\n  M%d\n.endm\n" % (i, i + 1) for i in range(D)) + ".macro M%d\n  nop\n.endm\n" % D
        out.append(_case("depth/macro-call-chain/%d" % D, "depth/macro", H + mchain + "M0\n" + TAIL, "msp430"))
        mpchain = "".join(".macro M%d(a)\n  M%d(a+1)\n.endm\n" % (i, i + 1) for i in range(D)) + ".macro M%d(a)\n  .db a\n.endm\n" % D
        out.append(_case("depth/macro-param-chain/%d" % D, "depth/macro", H + mpchain + "M0(1)\n" + TAIL, "msp430"))
        out.append(_case("depth/macro-def-nested/%d" % D, "depth/macro",
                         H + "".join(".macro N%d\n" % i for i in range(D)) + "  nop\n" + ".endm\n" * D + "N0\n" + TAIL, "msp430"))
        for kw, arg in ((".if", " 1"), (".ifdef", " Q"), (".ifndef", " Q"), (".if", " 0")):
            out.append(_case("depth/cond%s%s/%d" % (kw, arg.strip(), D), "depth/cond",
                             H + (kw + arg + "\n") * D + "  nop\n" + ".endif\n" * D + TAIL, "msp430"))
            out.append(_case("depth/cond-open%s%s/%d" % (kw, arg.strip(), D), "depth/cond", H + (kw + arg + "\n") * D + "  nop\n" + TAIL, "msp430"))
        out.append(_case("depth/cond-else/%d" % D, "depth/cond", H + ".if 1\n" + ".else\n" * D + ".endif\n" + TAIL, "msp430"))
        out.append(_case("depth/endif-only/%d" % D, "depth/cond", H + ".endif\n" * D + TAIL, "msp430"))
        out.append(_case("depth/parens/%d" % D, "depth/parens", H + ".dw %s1%s\n" % ("(" * D, ")" * D) + TAIL, "msp430"))
        out.append(_case("depth/parens-operand/%d" % D, "depth/parens", H + "  mov.w #%s1%s, r5\n" % ("(" * D, ")" * D) + TAIL, "msp430"))
        out.append(_case("depth/parens-if/%d" % D, "depth/parens", H + ".if %s1%s\n nop\n.endif\n" % ("(" * D, ")" * D) + TAIL, "msp430"))
        out.append(_case("depth/repeat1/%d" % D, "depth/repeat", H + ".repeat 1\n" * D + "  nop\n" + ".endr\n" * D + TAIL, "msp430"))
        out.append(_case("depth/repeat-open/%d" % D, "depth/repeat", H + ".repeat 1\n" * min(D, 16) + "  nop\n" + TAIL, "msp430"))
        out.append(_case("depth/endr-only/%d" % D, "depth/repeat", H + ".endr\n" * D + TAIL, "msp430"))
        out.append(_case("depth/scope/%d" % D, "depth/scope", H + ".scope\n" * D + "l:\n nop\n" + ".ends\n" * D + TAIL, "msp430"))
        out.append(_case("depth/func/%d" % D, "depth/scope", H + "".join(".func f%d\n" % i for i in range(D)) + " nop\n" + ".endf\n" * D + TAIL, "msp430"))
        out.append(_case("depth/endm-only/%d" % D, "depth/macro", H + ".endm\n" * D + TAIL, "msp430"))
        # include chain: t.asm -> i0.inc -> i1.inc ...
        files = {}
        for i in range(D):
            files["i%d.inc" % i] = (".include \"i%d.inc\"\n" % (i + 1)) if i + 1 < D else "  nop\n"
        out.append(_case("depth/include-chain/%d" % D, "depth/include", H + ".include \"i0.inc\"\n" + TAIL, "msp430", files=files))
        out.append(_case("depth/include-count/%d" % D, "depth/include", H + ".include \"one.inc\"\n" * D + TAIL, "msp430",
                         files={"one.inc": "  nop\n"}))
        # parameter counts
    pcs = [0, 1, 9, 10, 33, 129] if quick else [0, 1, 2, 8, 9, 10, 11, 16, 17, 32, 33, 64, 65, 100, 128, 129, 256, 300]
    for P in pcs:
        names = ",".join("p%d" % i for i in range(P))
        vals = ",".join("1" for i in range(P))
        body = "+".join("p%d" % i for i in range(P)) or "0"
        out.append(_case("params/macro/%d" % P, "params", H + ".macro M(%s)\n  .dw %s\n.endm\nM(%s)\n" % (names, body, vals) + TAIL, "msp430"))
        out.append(_case("params/macro-toofew/%d" % P, "params", H + ".macro M(%s)\n  .dw %s\n.endm\nM(1)\n" % (names, body) + TAIL, "msp430"))
        out.append(_case("params/macro-toomany/%d" % P, "params", H + ".macro M(a)\n  .dw a\n.endm\nM(%s)\n" % (vals or "1") + TAIL, "msp430"))
        out.append(_case("params/define/%d" % P, "params", H + ".define F(%s) %s\n.dw F(%s)\n" % (names, body, vals) + TAIL, "msp430"))
        out.append(_case("params/define-toomany/%d" % P, "params", H + ".define F(a) a\n.dw F(%s)\n" % (vals or "1") + TAIL, "msp430"))
        out.append(_case("params/macro-noparen/%d" % P, "params", H + ".macro M %s\n  nop\n.endm\nM %s\n" % (names, vals) + TAIL, "msp430"))
    # --- recursion
    rec = {
        "define-self-db": ".define A A\n.db A\n",
        "define-self-operand": ".define A A\n  mov.w #A, r5\n",
        "define-self-if": ".define A A\n.if A\n nop\n.endif\n",
        "define-self-ifdef": ".define A A\n.ifdef A\n nop\n.endif\n",
        "define-self-plus": ".define A A+1\n.db A\n",
        "define-mutual-db": ".define A B\n.define B A\n.db A\n",
        "define-mutual-operand": ".define A B\n.define B A\n  mov.w #A, r5\n",
        "define-mutual3": ".define A B\n.define B C\n.define C A\n.dw A\n",
        "define-param-self": ".define F(a) F(a)\n.db F(1)\n",
        "define-param-grow": ".define F(a) F(a+a)\n.db F(1)\n",
        "define-as-mnemonic": ".define nop nop\n  nop\n",
        "define-as-label": ".define L L\nL:\n  jmp L\n",
        "macro-self": ".macro M\n  M\n.endm\nM\n",
        "macro-self-param": ".macro M(a)\n  M(a)\n.endm\nM(1)\n",
        "macro-mutual": ".macro M\n  N\n.endm\n.macro N\n  M\n.endm\nM\n",
        "macro-redefines-self": ".macro M\n.macro M\n nop\n.endm\n.endm\nM\nM\n",
        "macro-named-as-define": ".define M 1\n.macro M\n nop\n.endm\nM\n",
        "macro-twice": ".macro M\n nop\n.endm\n.macro M\n nop\n.endm\nM\n",
        "macro-unterminated": ".macro M\n  nop\n",
        "macro-empty-name": ".macro\n nop\n.endm\n",
        "macro-paren-open": ".macro M(\n nop\n.endm\nM(\n",
        "macro-call-open": ".macro M(a,b)\n .dw a\n.endm\nM(1,\n",
        "define-paren-open": ".define F(\n.db F(\n",
        "define-empty": ".define\n",
        "define-only-name": ".define A\n.db A\n",
        "equ-self": "A equ A\n.db A\n",
        "equ-mutual": "A equ B\nB equ A\n.db A\n",
        "set-self": ".set A=A+1\n.db A\n",
        "label-twice": "l:\nl:\n jmp l\n",
        "include-self": ".include \"t.asm\"\n",
        "include-missing": ".include \"nonexistent.inc\"\n",
        "include-dir": ".include \".\"\n",
        "include-empty-name": ".include \"\"\n",
        "include-noquote": ".include t.asm\n",
        "binfile-self": ".binfile \"t.asm\"\n",
        "binfile-missing": ".binfile \"nonexistent.bin\"\n",
        "binfile-dir": ".binfile \".\"\n",
        "binfile-empty": ".binfile \"empty.bin\"\n",
    }
    for name, body in rec.items():
        out.append(_case("rec/" + name, "rec/" + name.split("-")[0], H + body + TAIL, "msp430", files={"empty.bin": ""}))
    out.append(_case("rec/include-mutual", "rec/include", H + ".include \"a.inc\"\n" + TAIL, "msp430",
                     files={"a.inc": ".include \"b.inc\"\n", "b.inc": ".include \"a.inc\"\n"}))
    out.append(_case("rec/include-macro-split", "rec/include", H + ".include \"a.inc\"\n  nop\n.endm\nM\n" + TAIL, "msp430",
                     files={"a.inc": ".macro M\n"}))
    out.append(_case("rec/include-if-split", "rec/include", H + ".include \"a.inc\"\n  nop\n.endif\n" + TAIL, "msp430", files={"a.inc": ".if 1\n"}))
    # --- addresses (single byte; never judged on time)
    addrs = ["0", "1", "0xffff", "0x10000", "0x7fffffff", "0x80000000", "0xfffffffe", "0xffffffff", "0x100000000", "-1", "0xffffffffffffffff"]
    for a in addrs:
        for cpu in (["msp430", "avr8"] if quick else ["msp430", "avr8", "68000", "propeller", "ebpf", "mips"]):
            out.append(_case("addr/org/%s/%s" % (cpu, a), "addr", ".%s\n.org %s\nl:\n.db 1\n" % (cpu, a), cpu))
            if not quick:
                out.append(_case("addr/org-instr/%s/%s" % (cpu, a), "addr", ".%s\n.org %s\nl:\n  nop\n" % (cpu, a), cpu))
        out.append(_case("addr/entry/%s" % a, "addr", H + ".entry_point %s\n" % a + TAIL, "msp430", ["-type", "elf", "-o", "out.elf", "t.asm"]))
        out.append(_case("addr/low-high/%s" % a, "addr", H + ".low_address %s\n.high_address %s\n" % (a, a) + TAIL, "msp430"))
        out.append(_case("addr/align/%s" % a, "addr", H + ".db 1\n.align %s\n.db 2\n" % a, "msp430"))
        out.append(_case("addr/resb/%s" % a, "addr", H + ".resb %s\n" % a, "msp430") if a in ("0", "1", "-1", "0xffff") else
                   _case("addr/data_fill0/%s" % a, "addr", H + ".data_fill 0, %s\n" % a, "msp430"))
        out.append(_case("addr/repeat/%s" % a, "addr", H + ".repeat %s\n.endr\n" % a, "msp430") if a in ("0", "1", "-1") else
                   _case("addr/jmp/%s" % a, "addr", H + "  jmp %s\n  call #%s\n  mov.w &%s, r5\n" % (a, a, a), "msp430"))
    # --- output types x cpu directive presence x flags
    progs = {"cpu-code": ".msp430\n.org 0x1000\nstart:\n  mov.w #5, r5\n  jmp start\n", "nocpu-data": ".org 0x10\n.db 1,2,3\n",
             "nocpu-empty": "", "cpu-empty": ".avr8\n", "nocpu-comment": "; nothing\n", "cpu-be": ".68000\n.org 0x100\n  nop\n.dc32 0x12345678\n",
             "cpu-export": ".mips\n.org 0x100\nf:\n  nop\n.export f\n.entry_point f\n", "nocpu-instr": "  nop\n",
             "cpu-2org": ".z80\n.org 0x10\n.db 1\n.org 0x2000\n.db 2\n", "cpu-bpa4": ".propeller\n.org 4\n.dc32 1\n",
             "cpu-error": ".msp430\n  bogus r1\n", "cpu-bss": ".msp430\n.bss\nv:\n.resb 4\n.code\n.org 0x100\n  nop\n"}
    flagsets = [[]] if quick else [[], ["-l"], ["-dump_symbols", "-dump_macros"], ["-q"], ["-optimize", "-l"]]
    for pn, p in progs.items():
        for t in TYPES:
            for fl in flagsets:
                out.append(_case("type/%s/%s/%s" % (pn, t, "".join(fl) or "-"), "type/" + ("nocpu" if pn.startswith("nocpu") else "cpu"),
                                 p, None, fl + ["-type", t, "-o", "out." + t, "t.asm"]))
        for al in ["-b", "-s", "-e", "-bin", "-srec", "-elf", "-wdc", "-amiga"]:
            out.append(_case("type/%s/alias%s" % (pn, al), "type/" + ("nocpu" if pn.startswith("nocpu") else "cpu"), p, None,
                             [al, "-o", "out.x", "t.asm"]))
    # --- odd command lines
    G = H + TAIL
    clis = {"none": [], "only-o": ["-o"], "only-type": ["-type"], "only-I": ["-I"], "o-noarg-after-file": ["t.asm", "-o"],
            "type-noarg-after-file": ["t.asm", "-type"], "I-noarg-after-file": ["t.asm", "-I"], "two-infiles": ["t.asm", "t.asm"],
            "two-different-infiles": ["t.asm", "u.asm"], "missing-infile": ["nope.asm"], "dir-infile": ["."], "h": ["-h"],
            "cpu_list": ["-cpu_list"], "cpu_list-file": ["-cpu_list", "t.asm"], "unknown-type": ["-type", "foo", "t.asm"],
            "empty-type": ["-type", "", "t.asm"], "empty-arg": [""], "empty-o": ["-o", "", "t.asm"], "o-is-infile": ["-o", "t.asm", "t.asm"],
            "o-is-dir": ["-o", ".", "t.asm"], "o-in-missing-dir": ["-o", "nodir/out.hex", "t.asm"], "dash": ["-"], "dashdash": ["--", "t.asm"],
            "I-empty": ["-I", "", "t.asm"], "I-many": sum([["-I", "d%d" % i] for i in range(300)], []) + ["t.asm"],
            "opts-after": ["t.asm", "-l", "-q", "-dump_symbols"], "all-flags": ["-l", "-q", "-dump_symbols", "-dump_macros", "-optimize", "-type", "elf", "t.asm"],
            "type-twice": ["-type", "bin", "-type", "elf", "-b", "-s", "t.asm"], "link-o-garbage": ["g.o", "t.asm"], "link-a-garbage": ["g.a", "t.asm"],
            "link-o-missing": ["nope.o", "t.asm"], "link-o-empty": ["e.o", "t.asm"], "link-a-empty": ["e.a", "t.asm"], "link-o-elfmagic": ["m.o", "t.asm"],
            "link-a-armagic": ["m.a", "t.asm"], "link-only": ["g.o"], "infile-noext": ["noext"], "infile-dotonly": [".asm"],
            "infile-hex-ext": ["-l", "prog.hex"], "infile-lst-ext": ["-l", "prog.lst"], "unknown-opt": ["-zzz", "t.asm"], "num-opt": ["-1", "t.asm"]}
    fx = {"u.asm": G, "g.o": "garbage" * 40, "g.a": "garbage" * 40, "e.o": "", "e.a": "", "m.o": "\x7fELF" + "\x01" * 60,
          "m.a": "!<arch>\n" + "x" * 70, "noext": G, ".asm": G, "prog.hex": G, "prog.lst": G}
    for name, a in clis.items():
        out.append(_case("cli/" + name, "cli", G, "msp430", a, files=fx))
    return out


# ------------------------------------------------------------------ sanitizer signatures (independent of the checkout path)

_FRAME = re.compile(r"#\d+ 0x[0-9a-f]+ in ([^\n]+?) (?:/[^\s:]*?/)?((?:asm|core|common|disasm|fileio|main|simulate|table|harness)/[A-Za-z0-9_.+-]+):\d+")
_UB = re.compile(r"(?:/[^\s:]*?/)?((?:asm|core|common|disasm|fileio|main|simulate|table|harness)/[A-Za-z0-9_.+-]+):\d+:\d+: runtime error: ")


def san_sig(san, stderr):
    """kind/function/file with function and file taken from the innermost frame inside the source tree,
    whatever directory the tree was checked out in (vf/proc.py only recognises /repo)."""
    if not san:
        return None
    kind = san["kind"]
    if kind in ("asan:rss-limit", "asan:oom"):
        return kind + "/?/?"
    text = stderr
    if kind.startswith("ubsan:"):
        m = _UB.search(text)
        f = m.group(1) if m else "?"
        fm = _FRAME.search(text[m.start():] if m else text)
        fn = re.sub(r"\(.*", "", fm.group(1)) if fm else "?"
        return "%s/%s/%s" % (kind, fn, f)
    first = text.split("\n\n")[0] if "\n\n" in text else text
    fm = _FRAME.search(first) or _FRAME.search(text)
    fn, f = "?", "?"
    if fm:
        fn, f = re.sub(r"\(.*", "", fm.group(1)), fm.group(2)
    if kind == "asan:stack-overflow":
        cnt = {}
        for m2 in _FRAME.finditer(text):
            k = (re.sub(r"\(.*", "", m2.group(1)), m2.group(2))
            cnt[k] = cnt.get(k, 0) + 1
        if cnt:
            # the recursion cycle: frames seen at least half as often as the most frequent one; name the
            # alphabetically first so the key does not depend on where the unwinder cut the cycle
            top = max(cnt.values())
            cyc = sorted(k for k, v in cnt.items() if v >= max(2, top // 2)) or sorted(cnt)
            fn, f = cyc[0]
    return "%s/%s/%s" % (kind, fn, f)
