"""Parser and byte-matching primitives for naken_asm -l listing files (C18).

The opcode column is never tokenised into "hex words" on its own authority
(mnemonics can look like hex): a prefix of whitespace-separated tokens is only
accepted as opcode bytes if its hex digits are exactly a family rendering of
the bytes the output file holds at that address."""
import re

INSTR_RE = re.compile(r"^0x([0-9a-fA-F]+):(.*)$")
ANY_RE = re.compile(r"(?<![A-Za-z_$#(,\[])0x([0-9a-fA-F]{4,}):(?=\s)")
CONT_RE = re.compile(r"^\s+((?:(?:0x)?[0-9a-fA-F]+\s*)+)$")
DUMP_RE = re.compile(r"^([0-9a-fA-F]{4,}):(.*)$")
SYM_RE = re.compile(r"^\s*(\S+) ([0-9a-fA-F]{8}) (-?\d+)( EXPORTED)?\s*$")
HEXTOK = re.compile(r"^[0-9a-f]+$")


# ---------------------------------------------------------------- families
# render(bytes) -> hex digit string for a whole number of units, or None.

def _r_bytes(b):
    return "".join("%02x" % x for x in b)


def _r_le(n):
    def f(b):
        if len(b) % n:
            return None
        return "".join("".join("%02x" % x for x in reversed(b[i:i + n])) for i in range(0, len(b), n))
    return f


def _r_dspic24(b):
    # 4-byte program word shown as its low 3 bytes
    if len(b) % 4:
        return None
    return "".join("%02x%02x%02x" % (b[i + 2], b[i + 1], b[i]) for i in range(0, len(b), 4))


def _r_vu(b):
    # 8 bytes: upper instruction word (bytes 4..7, LE) printed before the lower one
    if len(b) % 8:
        return None
    out = ""
    for i in range(0, len(b), 8):
        out += "".join("%02x" % x for x in reversed(b[i + 4:i + 8])) + "".join("%02x" % x for x in reversed(b[i:i + 4]))
    return out


FAMILIES = {
    "bytes": (1, _r_bytes),
    "w2le": (2, _r_le(2)),
    "w3le": (3, _r_le(3)),
    "w4le": (4, _r_le(4)),
    "w8le": (8, _r_le(8)),
    "dspic24": (4, _r_dspic24),
    "vu": (8, _r_vu),
}


def tokens_hex(text):
    """whitespace-separated tokens of text, lower-cased, a leading 0x removed;
    -> list of (digits or None if the token is not pure hex)."""
    out = []
    for t in text.split():
        t = t.lower()
        if t.startswith("0x"):
            t = t[2:]
        out.append(t if t and HEXTOK.match(t) else None)
    return out


def match_prefix(text, data, families):
    """All (family, ntokens, nbytes) such that the first ntokens tokens of text,
    concatenated hex-digit-wise, are exactly the family rendering of
    data[:nbytes].  Sorted by nbytes descending."""
    toks = tokens_hex(text)
    res = []
    acc = ""
    for j, t in enumerate(toks):
        if t is None:
            break
        acc += t
        for fam in families:
            unit, rf = FAMILIES[fam]
            if fam == "dspic24":
                if len(acc) % 6:
                    continue
                k = len(acc) // 6 * 4
            else:
                if len(acc) % 2:
                    continue
                k = len(acc) // 2
            if k == 0 or k % unit or k > len(data):
                continue
            if rf(data[:k]) == acc:
                res.append((fam, j + 1, k))
        if len(acc) > 2 * len(data) + 2:
            break
    res.sort(key=lambda x: -x[2])
    return res


def rest_after(text, ntok):
    """text after its first ntok whitespace-separated tokens."""
    s = text.lstrip()
    for _ in range(ntok):
        m = re.match(r"\S+\s*", s)
        if not m:
            return ""
        s = s[m.end():]
    return s


# ---------------------------------------------------------------- parser

def ascii_col(bs):
    return "".join(chr(b) if 32 <= b <= 120 else "." for b in bs)


def parse_dump_row(body):
    """body = text after 'ADDR:' of a data-section row -> list of byte values (or None)."""
    toks = list(re.finditer(r"\S+", body))
    best = None
    for n in range(min(16, len(toks)), 0, -1):
        ts = [t.group(0).lower() for t in toks[:n]]
        if not all(len(t) == 2 and HEXTOK.match(t) for t in ts):
            continue
        bs = [int(t, 16) for t in ts]
        r = body[toks[n - 1].end():]
        if len(r) >= n and r[:-n].strip() == "" and r[-n:] == ascii_col(bs):
            return bs
        if best is None and len(r.strip()) == 0:
            best = bs            # a row without a text column
    if best is not None:
        return best
    # strict fallback: ' hh' groups
    bs = []
    pos = 0
    while len(bs) < 16:
        m = re.match(r" ([0-9a-fA-F]{2})(?![0-9a-fA-F])", body[pos:])
        if not m:
            break
        bs.append(int(m.group(1), 16))
        pos += m.end()
    return bs or None


def parse(text):
    lines = text.split("\n")
    # the last 'data sections:' line starts the dump; 'Program Info:' after it the summary
    di = None
    for i, ln in enumerate(lines):
        if ln.strip() == "data sections:":
            di = i
    out = {"instr": [], "dump": [], "dump_bad": [], "symbols": [], "total_symbols": None, "low": None, "high": None,
           "code_bytes": None, "data_bytes": None, "instructions": None, "has_dump": di is not None}
    body = lines[:di] if di is not None else lines
    cur = None
    for ln in body:
        # some formatters do not start their line with a newline: '  mac1(5)0x0404: 90 ...' and '0x0625: 3a st r10  0x0626: 3a ...'
        ms = list(ANY_RE.finditer(ln))
        if ms:
            for i, m in enumerate(ms):
                end = ms[i + 1].start() if i + 1 < len(ms) else len(ln)
                cur = {"addr": int(m.group(1), 16), "text": ln[m.end():end], "cont": []}
                out["instr"].append(cur)
            continue
        if cur is not None:
            m = CONT_RE.match(ln)
            if m:
                cur["cont"].append(m.group(1))
                continue
            cur = None
    if di is None:
        return out
    tail = lines[di + 1:]
    pi = None
    for i, ln in enumerate(tail):
        if ln.strip() == "Program Info:":
            pi = i
            break
    dump = tail[:pi] if pi is not None else tail
    for ln in dump:
        if not ln.strip():
            continue
        m = DUMP_RE.match(ln)
        bs = parse_dump_row(m.group(2)) if m else None
        if not m or bs is None:
            out["dump_bad"].append(ln)
            continue
        out["dump"].append((int(m.group(1), 16), bs, ln))
    if pi is None:
        return out
    info = tail[pi + 1:]
    in_syms = False
    for ln in info:
        if re.match(r"^\s*LABEL ADDRESS\s+SCOPE", ln):
            in_syms = True
            continue
        m = re.match(r"^\s*-> Total symbols:\s*(\d+)", ln)
        if m:
            out["total_symbols"] = int(m.group(1))
            in_syms = False
            continue
        if in_syms:
            m = SYM_RE.match(ln)
            if m:
                out["symbols"].append((m.group(1), int(m.group(2), 16)))
            continue
        for key, pat in (("instructions", r"^\s*Instructions:\s*(\d+)"), ("code_bytes", r"^\s*Code Bytes:\s*(\d+)"),
                         ("data_bytes", r"^\s*Data Bytes:\s*(\d+)"),
                         ("low", r"^\s*Low Address:\s*0x([0-9a-fA-F]+)"), ("high", r"^\s*High Address:\s*0x([0-9a-fA-F]+)")):
            m = re.match(pat, ln)
            if m:
                out[key] = int(m.group(1), 16 if key in ("low", "high") else 10)
    return out
