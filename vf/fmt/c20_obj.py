"""Writers for C20: ELF32 (and a minimal ELF64) relocatable objects and `ar`
archives, built from a JSON-serialisable description so that every witness is
self-contained.

Object description (dict):
  endian      "le" | "be"          byte order of every ELF field and of .text words
  elfclass    1 | 2                ELFCLASS32 / ELFCLASS64 (64: Elf64 structures, .rela.text)
  machine     int                  e_machine (8 = EM_MIPS)
  funcs       [ {name, words:[u32], calls:[[word_index, target_name]], bind:1|0|2, gap:int} ]
              gap = number of filler words placed in .text before the function
  filler      int                  number of extra zero-sized symbols
  symseed     int                  order of the symbol table entries after the null entry
  pre, post   int                  number of unrelated sections before / after the needed ones
  shdr_first  bool                 section header table directly after the ELF header
  tail        int                  extra bytes appended to the file (makes odd sizes)
  sectsyms    bool                 add STT_SECTION symbols
Archive description (dict):
  members  [ {name, obj: <object description>} | {name, raw_hex: "..."} ]
  index    bool      add the "/" symbol index member
  longnames bool     add a "//" long-name table and use "/<off>" names for names > 15 chars
  bsd_pad  bool      (unused) padding byte is always "\n"
"""
import random
import struct

EM_MIPS = 8
R_MIPS_26 = 4
FILL_WORD = 0x70000000 | 0x3f   # never a jal, never a marker


def layout_text(obj):
    """-> (text_words, {function index: (offset_bytes, size_bytes)})"""
    words = []
    place = {}
    for i, f in enumerate(obj["funcs"]):
        words.extend([FILL_WORD] * f.get("gap", 0))
        place[i] = (len(words) * 4, len(f["words"]) * 4)
        words.extend(f["words"])
    return words, place


def build_elf(obj):
    e = "<" if obj.get("endian", "le") == "le" else ">"
    cls = obj.get("elfclass", 1)
    words, place = layout_text(obj)
    text = b"".join(struct.pack(e + "I", w & 0xffffffff) for w in words)

    strtab = bytearray(b"\0")
    names = {}

    def nm(s):
        if s not in names:
            names[s] = len(strtab)
            strtab.extend(s.encode() + b"\0")
        return names[s]

    npre = obj.get("pre", 0)
    idx_text = 1 + npre

    # symbol entries: (name, value, size, info, shndx)
    ents = []
    defined = set()
    for i, f in enumerate(obj["funcs"]):
        off, size = place[i]
        ents.append((f["name"], off, size, (f.get("bind", 1) << 4) | 2, idx_text))
        defined.add(f["name"])
    for f in obj["funcs"]:
        for _, tgt in f.get("calls", []):
            if tgt not in defined:
                defined.add(tgt)
                ents.append((tgt, 0, 0, 0x10, 0))
    for i in range(obj.get("filler", 0)):
        if i % 3 == 0:
            ents.append(("$L%d" % i, (i * 4) % max(4, len(text)), 0, 0x00, idx_text))   # local label, size 0
        else:
            ents.append(("ext_unused_%d" % i, 0, 0, 0x10, 0))
    if obj.get("sectsyms"):
        ents.append(("", 0, 0, 0x03, idx_text))
    random.Random(obj.get("symseed", 0)).shuffle(ents)
    ents.insert(0, ("", 0, 0, 0, 0))
    symidx = {}
    for i, en in enumerate(ents):
        if en[0] and en[0] not in symidx:
            symidx[en[0]] = i
    if cls == 1:
        symtab = b"".join(struct.pack(e + "IIIBBH", nm(n) if n else 0, v, s, info, 0, sh) for n, v, s, info, sh in ents)
    else:
        symtab = b"".join(struct.pack(e + "IBBHQQ", nm(n) if n else 0, info, 0, sh, v, s) for n, v, s, info, sh in ents)

    rels = []
    for i, f in enumerate(obj["funcs"]):
        off, _ = place[i]
        for widx, tgt in f.get("calls", []):
            rels.append((off + widx * 4, symidx[tgt]))
    random.Random(obj.get("symseed", 0) + 1).shuffle(rels)
    if cls == 1:
        rel = b"".join(struct.pack(e + "II", o, (s << 8) | R_MIPS_26) for o, s in rels)
        relname = ".rel.text"
    else:
        rel = b"".join(struct.pack(e + "QQq", o, (s << 32) | R_MIPS_26, 0) for o, s in rels)
        relname = ".rela.text"

    # sections: (name, type, flags, data, link, info, align, entsize)
    extra_kinds = [(".data", 1, 3), (".rodata", 1, 2), (".comment", 1, 0), (".reginfo", 0x70000006, 2),
                   (".MIPS.abiflags", 0x7000002a, 2), (".pdr", 1, 0)]
    secs = [("", 0, 0, b"", 0, 0, 0, 0)]
    r = random.Random(obj.get("symseed", 0) + 2)
    for i in range(npre):
        k = extra_kinds[i % len(extra_kinds)]
        secs.append((k[0], k[1], k[2], bytes(r.getrandbits(8) for _ in range(4 * r.randint(1, 6))), 0, 0, 4, 0))
    assert len(secs) == idx_text
    secs.append((".text", 1, 6, text, 0, 0, 4, 0))
    idx_sym = len(secs) + 1
    secs.append((relname, 9 if cls == 1 else 4, 0, rel, idx_sym, idx_text, 4, 8 if cls == 1 else 24))
    secs.append((".symtab", 2, 0, symtab, idx_sym + 1, 1, 4, 16 if cls == 1 else 24))
    secs.append((".strtab", 3, 0, bytes(strtab), 0, 0, 1, 0))
    for i in range(obj.get("post", 0)):
        k = extra_kinds[(i + 2) % len(extra_kinds)]
        secs.append((k[0] + ".x%d" % i, k[1], k[2], bytes(r.getrandbits(8) for _ in range(4 * r.randint(1, 6))), 0, 0, 4, 0))
    shstr = bytearray(b"\0")
    shn = []
    for s in secs:
        shn.append(len(shstr) if s[0] else 0)
        if s[0]:
            shstr.extend(s[0].encode() + b"\0")
    shn.append(len(shstr))
    shstr.extend(b".shstrtab\0")
    secs.append((".shstrtab", 3, 0, bytes(shstr), 0, 0, 1, 0))

    ehsize = 52 if cls == 1 else 64
    shent = 40 if cls == 1 else 64
    nsec = len(secs)
    pos = ehsize
    shoff = None
    if obj.get("shdr_first"):
        shoff = pos
        pos += shent * nsec
    body = bytearray()
    offs = []
    for s in secs:
        al = 4 if s[6] != 1 else 1
        while (pos + len(body) - (0 if shoff is None else 0)) % al:
            body.append(0)
        offs.append(pos + len(body))
        body.extend(s[3])
    if shoff is None:
        while (pos + len(body)) % 4:
            body.append(0)
        shoff = pos + len(body)
    sh = bytearray()
    for i, s in enumerate(secs):
        if cls == 1:
            sh.extend(struct.pack(e + "IIIIIIIIII", shn[i], s[1], s[2], 0, offs[i] if i else 0, len(s[3]), s[4], s[5], s[6], s[7]))
        else:
            sh.extend(struct.pack(e + "IIQQQQIIQQ", shn[i], s[1], s[2], 0, offs[i] if i else 0, len(s[3]), s[4], s[5], s[6], s[7]))
    ident = b"\x7fELF" + bytes([cls, 1 if e == "<" else 2, 1, 0, 0]) + b"\0" * 7
    if cls == 1:
        hdr = ident + struct.pack(e + "HHIIIIIHHHHHH", 1, obj.get("machine", EM_MIPS), 1, 0, 0, shoff, 0x1000,
                                  ehsize, 0, 0, shent, nsec, nsec - 1)
    else:
        hdr = ident + struct.pack(e + "HHIQQQIHHHHHH", 1, obj.get("machine", EM_MIPS), 1, 0, 0, shoff, 0,
                                  ehsize, 0, 0, shent, nsec, nsec - 1)
    assert len(hdr) == ehsize
    if obj.get("shdr_first"):
        data = hdr + bytes(sh) + bytes(body)
    else:
        data = hdr + bytes(body) + bytes(sh)
    data += b"\0" * obj.get("tail", 0)
    return data


def _ar_hdr(name, size):
    h = "%-16s%-12s%-6s%-6s%-8s%-10d`\n" % (name, "0", "0", "0", "644", size)
    assert len(h) == 60, h
    return h.encode()


def build_ar(ar):
    members = []
    for m in ar["members"]:
        data = bytes.fromhex(m["raw_hex"]) if "raw_hex" in m else build_elf(m["obj"])
        members.append((m["name"], data, m))
    longtab = b""
    hdrnames = []
    for name, data, m in members:
        if ar.get("longnames") and len(name) > 15:
            hdrnames.append("/%d" % len(longtab))
            longtab += name.encode() + b"/\n"
        else:
            hdrnames.append(name[:15] + "/")
    # symbol index
    idx_names = []
    if ar.get("index"):
        for mi, (name, data, m) in enumerate(members):
            if "obj" in m:
                for f in m["obj"]["funcs"]:
                    if f.get("bind", 1) != 0:
                        idx_names.append((mi, f["name"]))
    idx_size = 4 + 4 * len(idx_names) + sum(len(n) + 1 for _, n in idx_names)
    pos = 8
    if ar.get("index"):
        pos += 60 + idx_size + (idx_size & 1)
    if longtab:
        pos += 60 + len(longtab) + (len(longtab) & 1)
    moffs = []
    for name, data, m in members:
        moffs.append(pos)
        pos += 60 + len(data) + (len(data) & 1)
    out = bytearray(b"!<arch>\n")
    if ar.get("index"):
        body = struct.pack(">I", len(idx_names)) + b"".join(struct.pack(">I", moffs[mi]) for mi, _ in idx_names) + \
            b"".join(n.encode() + b"\0" for _, n in idx_names)
        out += _ar_hdr("/", len(body)) + body + (b"\n" if len(body) & 1 else b"")
    if longtab:
        out += _ar_hdr("//", len(longtab)) + longtab + (b"\n" if len(longtab) & 1 else b"")
    for (name, data, m), hn, mo in zip(members, hdrnames, moffs):
        assert len(out) == mo
        out += _ar_hdr(hn, len(data)) + data + (b"\n" if len(data) & 1 else b"")
    return bytes(out)
