"""Object-file decoders written from the format specifications (Intel HEX,
Motorola S-record, ELF32/64, WDC "Z" binary, UF2, raw binary).  Each returns
(image {byte address: value}, meta, errors) where errors lists every structural
defect the specification forbids (bad checksum, bad length, unknown record)."""
import struct


def ihex(data):
    img, errors, meta = {}, [], {"records": 0, "eof": False}
    base = 0
    text = data.decode("latin-1")
    for ln_no, ln in enumerate(text.splitlines(), 1):
        ln = ln.strip()
        if not ln:
            continue
        if meta["eof"]:
            errors.append("line %d: record after EOF record" % ln_no)
        if not ln.startswith(":"):
            errors.append("line %d: no start code" % ln_no)
            continue
        try:
            raw = bytes.fromhex(ln[1:])
        except ValueError:
            errors.append("line %d: non-hex characters" % ln_no)
            continue
        if len(raw) < 5:
            errors.append("line %d: record too short" % ln_no)
            continue
        n, addr, typ = raw[0], (raw[1] << 8) | raw[2], raw[3]
        if len(raw) != n + 5:
            errors.append("line %d: byte count %d does not match record length %d" % (ln_no, n, len(raw) - 5))
            continue
        if sum(raw) & 0xff:
            errors.append("line %d: checksum invalid" % ln_no)
        payload = raw[4:4 + n]
        meta["records"] += 1
        if typ == 0:
            for i, b in enumerate(payload):
                a = (base + addr + i) & 0xffffffff
                if a in img:
                    errors.append("line %d: address 0x%x written twice" % (ln_no, a))
                img[a] = b
        elif typ == 1:
            meta["eof"] = True
            if n != 0:
                errors.append("line %d: EOF record with data" % ln_no)
        elif typ == 2:
            if n != 2:
                errors.append("line %d: type 02 length %d" % (ln_no, n))
            else:
                base = ((payload[0] << 8) | payload[1]) << 4
        elif typ == 4:
            if n != 2:
                errors.append("line %d: type 04 length %d" % (ln_no, n))
            else:
                base = ((payload[0] << 8) | payload[1]) << 16
        elif typ == 3:
            meta["start_segment"] = payload.hex()
        elif typ == 5:
            if n == 4:
                meta["entry"] = struct.unpack(">I", payload)[0]
            else:
                errors.append("line %d: type 05 length %d" % (ln_no, n))
        else:
            errors.append("line %d: unknown record type %02x" % (ln_no, typ))
    if not meta["eof"]:
        errors.append("no EOF record")
    return img, meta, errors


def srec(data):
    img, errors, meta = {}, [], {"records": 0, "types": {}}
    alen = {"0": 2, "1": 2, "2": 3, "3": 4, "5": 2, "6": 3, "7": 4, "8": 3, "9": 2}
    text = data.decode("latin-1")
    ndata = 0
    for ln_no, ln in enumerate(text.splitlines(), 1):
        ln = ln.strip()
        if not ln:
            continue
        if ln[0] != "S" or len(ln) < 4 or ln[1] not in alen:
            errors.append("line %d: not an S-record" % ln_no)
            continue
        t = ln[1]
        try:
            raw = bytes.fromhex(ln[2:])
        except ValueError:
            errors.append("line %d: non-hex characters" % ln_no)
            continue
        cnt = raw[0]
        if len(raw) != cnt + 1:
            errors.append("line %d: byte count %d does not match record length %d" % (ln_no, cnt, len(raw) - 1))
            continue
        if (sum(raw) & 0xff) != 0xff:
            errors.append("line %d: checksum invalid (S%s)" % (ln_no, t))
        al = alen[t]
        if cnt < al + 1:
            errors.append("line %d: record too short" % ln_no)
            continue
        addr = int.from_bytes(raw[1:1 + al], "big")
        payload = raw[1 + al:-1]
        meta["records"] += 1
        meta["types"][t] = meta["types"].get(t, 0) + 1
        if t in "123":
            ndata += 1
            for i, b in enumerate(payload):
                a = addr + i
                if a in img:
                    errors.append("line %d: address 0x%x written twice" % (ln_no, a))
                img[a] = b
        elif t in "789":
            meta["entry"] = addr
            if payload:
                errors.append("line %d: termination record with data" % ln_no)
        elif t in "56":
            if addr != ndata:
                errors.append("line %d: record count %d != %d" % (ln_no, addr, ndata))
    meta["terminated"] = any(t in meta["types"] for t in "789")
    return img, meta, errors


def wdc(data):
    img, errors, meta = {}, [], {"blocks": 0}
    if not data or data[0:1] != b"Z":
        return img, meta, ["missing 'Z' signature"]
    p = 1
    while p < len(data):
        if p + 6 > len(data):
            errors.append("truncated block header at offset %d" % p)
            break
        addr = data[p] | (data[p + 1] << 8) | (data[p + 2] << 16)
        ln = data[p + 3] | (data[p + 4] << 8) | (data[p + 5] << 16)
        p += 6
        if ln == 0:
            meta["terminator"] = True
            break
        if p + ln > len(data):
            errors.append("block at offset %d longer than file" % (p - 6))
            break
        for i in range(ln):
            a = addr + i
            if a in img:
                errors.append("address 0x%x written twice" % a)
            img[a] = data[p + i]
        p += ln
        meta["blocks"] += 1
    return img, meta, errors


UF2_MAGIC0, UF2_MAGIC1, UF2_MAGIC_END = 0x0A324655, 0x9E5D5157, 0x0AB16F30


UF2_ABSOLUTE_FAMILY = 0xe48bff57   # RP2350-E10 workaround block the Pico SDK (and naken_asm) emit first


def uf2(data):
    img, errors, meta = {}, [], {"blocks": 0, "absolute_family_blocks": 0}
    if len(data) % 512:
        errors.append("file size %d is not a multiple of 512" % len(data))
    nb = len(data) // 512
    blocks = []
    for i in range(nb):
        blk = data[i * 512:(i + 1) * 512]
        m0, m1, flags, addr, size, no, total, fam = struct.unpack("<8I", blk[:32])
        mend = struct.unpack("<I", blk[508:512])[0]
        if m0 != UF2_MAGIC0 or m1 != UF2_MAGIC1 or mend != UF2_MAGIC_END:
            errors.append("block %d: bad magic" % i)
            continue
        if size > 476:
            errors.append("block %d: payload size %d > 476" % (i, size))
            continue
        if (flags & 0x2000) and fam == UF2_ABSOLUTE_FAMILY:
            meta["absolute_family_blocks"] += 1
            continue
        blocks.append((i, flags, addr, size, no, total, blk))
    for k, (i, flags, addr, size, no, total, blk) in enumerate(blocks):
        if no != k:
            errors.append("block %d: block number field %d, expected %d" % (i, no, k))
        if total != len(blocks):
            errors.append("block %d: total blocks field %d != %d" % (i, total, len(blocks)))
        meta["blocks"] += 1
        if flags & 1:
            continue  # not main flash
        for j in range(size):
            a = addr + j
            if a in img:
                errors.append("block %d: address 0x%x written twice" % (i, a))
            img[a] = blk[32 + j]
    return img, meta, errors


def elf(data):
    img, errors, meta = {}, [], {"symbols": {}, "sections": []}
    if data[:4] != b"\x7fELF":
        return img, meta, ["bad ELF magic"]
    cls, endian = data[4], data[5]
    if cls not in (1, 2) or endian not in (1, 2):
        return img, meta, ["bad EI_CLASS/EI_DATA"]
    e = "<" if endian == 1 else ">"
    try:
        if cls == 1:
            (etype, mach, ver, entry, phoff, shoff, flags, ehsize, phentsize, phnum, shentsize, shnum, shstrndx) = \
                struct.unpack(e + "HHIIIIIHHHHHH", data[16:52])
        else:
            (etype, mach, ver, entry, phoff, shoff, flags, ehsize, phentsize, phnum, shentsize, shnum, shstrndx) = \
                struct.unpack(e + "HHIQQQIHHHHHH", data[16:64])
    except struct.error:
        return img, meta, ["truncated ELF header"]
    meta.update({"class": cls, "endian": endian, "entry": entry, "machine": mach, "type": etype, "phnum": phnum, "shnum": shnum})
    secs = []
    for i in range(shnum):
        off = shoff + i * shentsize
        try:
            if cls == 1:
                name, typ, fl, addr, offset, size, link, info, align, entsize = struct.unpack(e + "10I", data[off:off + 40])
            else:
                name, typ, fl, addr, offset, size, link, info, align, entsize = struct.unpack(e + "IIQQQQIIQQ", data[off:off + 64])
        except struct.error:
            errors.append("section header %d outside the file" % i)
            break
        secs.append({"name_off": name, "type": typ, "flags": fl, "addr": addr, "offset": offset, "size": size,
                     "link": link, "info": info, "entsize": entsize})

    def cstr(tab, off):
        end = tab.find(b"\0", off)
        return tab[off:end if end >= 0 else len(tab)].decode("latin-1")
    shstr = b""
    if shstrndx < len(secs):
        s = secs[shstrndx]
        shstr = data[s["offset"]:s["offset"] + s["size"]]
    for s in secs:
        s["name"] = cstr(shstr, s["name_off"]) if shstr else ""
        if s["type"] != 8 and s["offset"] + s["size"] > len(data) and s["type"] != 0:
            errors.append("section %s extends past the end of the file" % s["name"])
    meta["sections"] = [(s["name"], s["type"], s["addr"], s["size"]) for s in secs]
    for s in secs:
        if s["type"] == 1 and (s["flags"] & 2):      # PROGBITS + SHF_ALLOC
            blob = data[s["offset"]:s["offset"] + s["size"]]
            for i, b in enumerate(blob):
                a = s["addr"] + i
                if a in img:
                    errors.append("address 0x%x loaded twice (section %s)" % (a, s["name"]))
                img[a] = b
    # symbols
    for s in secs:
        if s["type"] == 2:
            strtab = b""
            if s["link"] < len(secs):
                l = secs[s["link"]]
                strtab = data[l["offset"]:l["offset"] + l["size"]]
            esz = 16 if cls == 1 else 24
            blob = data[s["offset"]:s["offset"] + s["size"]]
            for i in range(len(blob) // esz):
                ent = blob[i * esz:(i + 1) * esz]
                if cls == 1:
                    nm, val, sz, info, other, shndx = struct.unpack(e + "IIIBBH", ent)
                else:
                    nm, info, other, shndx, val, sz = struct.unpack(e + "IBBHQQ", ent)
                n = cstr(strtab, nm) if nm else ""
                if n:
                    meta["symbols"].setdefault(n, []).append({"value": val, "size": sz, "bind": info >> 4, "type": info & 15, "shndx": shndx})
    # program headers (cross-check only)
    ph = []
    for i in range(phnum):
        off = phoff + i * phentsize
        try:
            if cls == 1:
                typ, offset, vaddr, paddr, filesz, memsz, fl, align = struct.unpack(e + "8I", data[off:off + 32])
            else:
                typ, fl, offset, vaddr, paddr, filesz, memsz, align = struct.unpack(e + "IIQQQQQQ", data[off:off + 56])
        except struct.error:
            errors.append("program header %d outside the file" % i)
            break
        ph.append({"type": typ, "offset": offset, "vaddr": vaddr, "filesz": filesz, "memsz": memsz})
        if typ == 1 and offset + filesz > len(data):
            errors.append("PT_LOAD %d extends past the end of the file" % i)
    meta["phdrs"] = ph
    return img, meta, errors


def rawbin(data, base):
    return {base + i: b for i, b in enumerate(data)}, {}, []


def ti_txt(data):
    img, errors, meta = {}, [], {}
    addr = None
    for ln_no, ln in enumerate(data.decode("latin-1").splitlines(), 1):
        ln = ln.strip()
        if not ln:
            continue
        if ln.startswith("@"):
            addr = int(ln[1:], 16)
        elif ln.lower() == "q":
            meta["q"] = True
            break
        else:
            for tok in ln.split():
                img[addr] = int(tok, 16)
                addr += 1
    return img, meta, errors


DECODERS = {"hex": ihex, "srec": srec, "wdc": wdc, "uf2": uf2, "elf": elf}
