"""Child-process runner for the real CLI binaries, with resource limits and
sanitizer-report parsing.  One case per process; every outcome is attributed
to the case that caused it."""
import os
import re
import resource
import signal
import subprocess
import tempfile
import time

ASAN_ENV = ("exitcode=77:detect_leaks=0:abort_on_error=0:detect_stack_use_after_return=1:"
            "hard_rss_limit_mb=3000:allocator_may_return_null=1:max_allocation_size_mb=2000:"
            "handle_abort=1:symbolize=1:fast_unwind_on_malloc=1:malloc_context_size=5")
UBSAN_ENV = "print_stacktrace=1:halt_on_error=1:exitcode=77"

_REPO = os.environ.get("VERIF_REPO", "/repo").rstrip("/")
REPO_RE = re.compile(r"#\d+ 0x[0-9a-f]+ in ([^\n]+?) (%s)/(\S+?):(\d+)" % re.escape(_REPO))
FRAME_RE = re.compile(r"#\d+ 0x[0-9a-f]+ in (\S+)")


def base_env(extra=None):
    env = {
        "PATH": "/usr/bin:/bin",
        "ASAN_OPTIONS": ASAN_ENV,
        "UBSAN_OPTIONS": UBSAN_ENV,
        "LANG": "C",
        "TERM": "dumb",
        "HOME": "/nonexistent",
    }
    if extra:
        env.update(extra)
    return env


def parse_sanitizer(text):
    """Return None or dict(kind, func, file, sig) from ASan/UBSan stderr."""
    if not text:
        return None
    kind = None
    m = re.search(r"ERROR: AddressSanitizer: ([A-Za-z0-9_-]+)", text)
    if m:
        kind = "asan:" + m.group(1)
        if m.group(1) == "SEGV":
            # distinguish null-ish deref from wild
            if re.search(r"stack-overflow|Stack overflow", text, re.I):
                kind = "asan:stack-overflow"
        if "requested allocation size" in text or "allocation-size-too-big" in text:
            kind = "asan:allocation-size-too-big"
    else:
        m = re.search(r"(\S+?):(\d+):(\d+): runtime error: (.*)", text)
        if m:
            msg = m.group(4)
            if "out of bounds" in msg:
                k = "index-out-of-bounds"
            elif "division by zero" in msg:
                k = "division-by-zero"
            elif "null pointer" in msg:
                k = "null-pointer"
            elif "variable length array" in msg:
                k = "vla-bound"
            elif "reached the end" in msg or "without returning" in msg:
                k = "missing-return"
            else:
                k = re.sub(r"[^a-z]+", "-", msg.lower())[:40]
            kind = "ubsan:" + k
            f = m.group(1)
            f = re.sub(r"^(%s)/" % re.escape(_REPO), "", f)
            fm = REPO_RE.search(text)
            func = fm.group(1) if fm else "?"
            func = re.sub(r"\(.*", "", func)
            return {"kind": kind, "func": func, "file": f, "sig": "%s/%s/%s" % (kind, func, f)}
        if "AddressSanitizer" in text and "hard rss limit" in text.lower():
            return {"kind": "asan:rss-limit", "func": "?", "file": "?", "sig": "asan:rss-limit/?/?"}
        if "AddressSanitizer" in text and ("out of memory" in text.lower() or "failed to allocate" in text.lower()):
            return {"kind": "asan:oom", "func": "?", "file": "?", "sig": "asan:oom/?/?"}
        return None
    # innermost frame inside the repo
    func, file = "?", "?"
    # restrict to the first stack trace
    first = text.split("\n\n")[0] if "\n\n" in text else text
    fm = REPO_RE.search(first) or REPO_RE.search(text)
    if fm:
        func = re.sub(r"\(.*", "", fm.group(1))
        file = fm.group(3)
    if kind == "asan:stack-overflow":
        # recursion: name the most frequent repo frame
        cnt = {}
        for m2 in REPO_RE.finditer(text):
            k = (re.sub(r"\(.*", "", m2.group(1)), m2.group(3))
            cnt[k] = cnt.get(k, 0) + 1
        if cnt:
            (func, file), _ = max(cnt.items(), key=lambda kv: kv[1])
    return {"kind": kind, "func": func, "file": file, "sig": "%s/%s/%s" % (kind, func, file)}


class Outcome(object):
    __slots__ = ("status", "signal", "stdout", "stderr", "cpu_s", "wall_s", "timed_out", "wall_killed",
                 "san", "files", "maxrss_kb")

    def as_dict(self):
        return {k: getattr(self, k) for k in ("status", "signal", "cpu_s", "timed_out", "wall_killed", "files")}


def run(argv, cwd, stdin_data=None, cpu_s=10, wall_s=None, fsize_mb=256, env=None, max_out=1 << 20):
    """Run argv in cwd with limits.  Returns Outcome."""
    if wall_s is None:
        wall_s = cpu_s * 6 + 20

    def pre():
        resource.setrlimit(resource.RLIMIT_CPU, (cpu_s, cpu_s + 2))
        resource.setrlimit(resource.RLIMIT_FSIZE, (fsize_mb << 20, fsize_mb << 20))
        resource.setrlimit(resource.RLIMIT_CORE, (0, 0))
        os.setsid()

    out_f = tempfile.TemporaryFile()
    err_f = tempfile.TemporaryFile()
    if stdin_data is None:
        in_f = open("/dev/null", "rb")
    else:
        in_f = tempfile.TemporaryFile()
        in_f.write(stdin_data if isinstance(stdin_data, bytes) else stdin_data.encode("latin-1"))
        in_f.seek(0)
    t0 = time.time()
    r0 = resource.getrusage(resource.RUSAGE_CHILDREN)
    p = subprocess.Popen(argv, cwd=cwd, stdin=in_f, stdout=out_f, stderr=err_f, env=env or base_env(),
                         preexec_fn=pre, close_fds=True)
    o = Outcome()
    o.wall_killed = False
    try:
        p.wait(timeout=wall_s)
    except subprocess.TimeoutExpired:
        o.wall_killed = True
        try:
            os.killpg(p.pid, signal.SIGKILL)
        except OSError:
            pass
        p.wait()
    r1 = resource.getrusage(resource.RUSAGE_CHILDREN)
    o.wall_s = time.time() - t0
    o.cpu_s = (r1.ru_utime - r0.ru_utime) + (r1.ru_stime - r0.ru_stime)
    o.maxrss_kb = r1.ru_maxrss
    rc = p.returncode
    o.status = rc if rc >= 0 else None
    o.signal = -rc if rc < 0 else None
    out_f.seek(0)
    err_f.seek(0)
    o.stdout = out_f.read(max_out).decode("latin-1")
    o.stderr = err_f.read(max_out).decode("latin-1")
    out_f.close()
    err_f.close()
    in_f.close()
    o.timed_out = (o.signal in (signal.SIGXCPU, signal.SIGKILL) and not o.wall_killed and o.cpu_s >= cpu_s - 0.5)
    o.san = parse_sanitizer(o.stderr)
    try:
        o.files = sorted(os.listdir(cwd))
    except OSError:
        o.files = []
    return o
