"""C11 - every symbol reference resolves to the definition the scoping rules select.

Monitor: a Python reference resolver (one global table + one table per
.scope/.func block; local first, then global; direction independent; .set
symbols carry the most recent value in source order) predicts the value of
every `.dc32 <name>` of a generated program.  The program is assembled by the
real library in the in-process driver (sanitizer build) and the emitted image
is compared word by word.  Programs the scoping rules forbid (a name defined
twice in one scope, a reference to a label that is local to another scope only)
must be rejected.  A sample is also run through the real CLI with `-l -type
elf`: image, exported symbols in .symtab and the rows of the listing's symbol
table are compared with the model.
"""
import os
import re
import shutil
import tempfile

from .. import core, proc
from ..fmt import decode

RULE = ("generated programs (seeded): 1..5000 labels (beyond one 32 KiB symbol pool), name lengths 1..254, 0..200 "
        ".scope/.func blocks, names shadowed between global and local scope and between scopes, forward/backward "
        "`.dc32 name` references inside and outside scopes, .set chains, .export, on byte- and word-addressed CPUs; "
        "enumerated pool-boundary programs (an entry ending exactly at / one before / one after 32768 for 4 filler "
        "sizes); negative programs (duplicate definition per placement class, reference to a label local to another "
        "scope only). distinct_nontrivial = distinct (program class, cpu, pools bucket, scopes bucket, place of "
        "reference, kind of target, direction, shadowing) tuples whose emitted value was compared with the resolver, "
        "plus distinct negative classes whose rejection was checked, plus distinct ELF/listing facts compared.")

CPUS = [("", 1), ("msp430", 1), ("68000", 1), ("z80", 1), ("avr8", 2), ("pic14", 2), ("mips", 1)]
ELF_CPUS = ["msp430", "68000", "z80"]
POOL = 32768
ENTRY = 8
TMPROOT = os.path.join(core.VERIF, ".work", "tmp")

FIRST = "gkqwyz_"
REST = "abcdefghijklmnopqrstuvwxyz0123456789_"


def _reserved_names():
    """cpu names double as directives (`.z80`): a label called `z80` is substituted into the directive in pass 2
    (`Unknown directive '39360'`).  That is a tokenizer matter, not symbol scoping, so such names are not generated."""
    names = set()
    try:
        from .. import build as _b
        txt = open(os.path.join(_b.REPO, "core", "cpu_list.cpp"), errors="replace").read()
        names.update(m.lower() for m in re.findall(r'"([A-Za-z0-9_]+)"', txt))
    except OSError:
        pass
    names.update(["z80", "w65816", "w65c832"])
    return names


RESERVED = _reserved_names()


# ------------------------------------------------------------------ names

def mk_name(rng, used, length=None):
    for _ in range(200):
        if length is None:
            r = rng.random()
            if r < 0.08:
                n = 1
            elif r < 0.75:
                n = rng.randint(2, 9)
            elif r < 0.93:
                n = rng.randint(10, 60)
            else:
                n = rng.choice([100, 200, 253, 254, rng.randint(61, 254)])
        else:
            n = length
        n = min(254, n + _ // 20)
        s = rng.choice(FIRST) + "".join(rng.choice(REST) for _ in range(n - 1))
        if s not in used and s.lower() not in RESERVED:
            used.add(s)
            return s
    raise RuntimeError("name space exhausted")


# ------------------------------------------------------------------ program generator
# statements: ["L", name] label + marker word; ["F", name] .func name + marker word; ["S"] .scope; ["E"] .ends;
# ["EF"] .endf; ["R", name] .dc32 name; ["SET", name, [terms]]; ["X", name] .export name

def gen_program(rng, nlabels, nscopes, cpu, kind, longnames=True, nrefs=None, nsets=None):
    used = set()
    # a small pool of names reused in many scopes (shadowing) + unique names
    nshared = max(1, min(12, nlabels // 3))
    shared = [mk_name(rng, used, None if longnames else rng.randint(1, 8)) for _ in range(nshared)]
    stm = []
    # partition the labels over blocks: block 0 = global level (interleaved between scopes)
    blocks = []     # list of ("g"|"s"|"f", [names], funcname)
    remaining = nlabels
    gl_names = set()
    for b in range(nscopes):
        typ = rng.choice("sf")
        k = 0 if remaining <= 0 else rng.randint(0, max(1, min(8, 2 * remaining // max(1, nscopes))))
        k = min(k, remaining)
        names = []
        seen = set()
        for _ in range(k):
            if rng.random() < 0.55:
                n = rng.choice(shared)
                if n in seen:
                    n = mk_name(rng, used, None if longnames else rng.randint(1, 8))
            else:
                n = mk_name(rng, used, None if longnames else rng.randint(1, 8))
            seen.add(n)
            names.append(n)
        fn = None
        if typ == "f":
            fn = mk_name(rng, used, rng.randint(2, 12))
            gl_names.add(fn)
            remaining -= 1
        remaining -= len(names)
        blocks.append((typ, names, fn))
    # global labels: some of the shared names (shadowed) + unique ones
    glob = []
    for n in shared:
        if remaining > 0 and rng.random() < 0.6:
            glob.append(n)
            remaining -= 1
    while remaining > 0:
        glob.append(mk_name(rng, used, None if longnames else rng.randint(1, 8)))
        remaining -= 1
    rng.shuffle(glob)
    gl_names.update(glob)
    # distribute global labels into nscopes+1 gaps
    gaps = [[] for _ in range(nscopes + 1)]
    for n in glob:
        gaps[rng.randrange(nscopes + 1)].append(n)
    all_local = sorted({n for _, names, _ in blocks for n in names})
    all_global = sorted(gl_names)
    setnames = [("s_" + mk_name(rng, used, rng.randint(1, 10))) for _ in range(rng.randint(0, 4) if nsets is None else nsets)]
    assigned = []
    setvals = {}
    if nrefs is None:
        nrefs = max(4, min(3000, int(nlabels * rng.choice([0.5, 1, 2]))))
    per_pos = max(1, nrefs // (2 * nscopes + 1 + len(glob) // 4 + 1))

    def refs_here(local_names):
        out = []
        for _ in range(rng.randint(0, 2 * per_pos)):
            r = rng.random()
            if local_names and r < 0.45:
                out.append(["R", rng.choice(local_names)])
            elif all_global and r < 0.9:
                # prefer shared (shadowed) names half the time
                cand = [n for n in shared if n in gl_names]
                if cand and rng.random() < 0.5:
                    out.append(["R", rng.choice(cand)])
                else:
                    out.append(["R", rng.choice(all_global)])
            elif assigned:
                out.append(["R", rng.choice(assigned)])
        return out

    def sets_here():
        out = []
        if setnames and rng.random() < 0.5:
            n = rng.choice(setnames)
            terms = [rng.choice([0, 1, 2, 7, 255, 256, 4096, 65535, rng.randint(0, 65535)])]
            for _ in range(rng.randint(0, 2)):
                if assigned and rng.random() < 0.7:
                    t = rng.choice(assigned)
                    if setvals[t] < (1 << 26):
                        terms.append(t)
                        continue
                terms.append(rng.randint(0, 999))
            v = sum(setvals[t] if isinstance(t, str) else t for t in terms)
            setvals[n] = v
            if n not in assigned:
                assigned.append(n)
            out.append(["SET", n, terms])
            if rng.random() < 0.8:
                out.append(["R", n])
        return out

    exported = set()

    def exports_here(local_names):
        out = []
        if all_global and rng.random() < 0.35:
            n = rng.choice(all_global)
            if n not in local_names and n not in exported:
                exported.add(n)
                out.append(["X", n])
        return out

    for i in range(nscopes + 1):
        body = [["L", n] for n in gaps[i]]
        body += refs_here([]) + sets_here() + exports_here(set())
        rng.shuffle(body)
        body = fix_set_order(body)
        stm += body
        if i < nscopes:
            typ, names, fn = blocks[i]
            stm.append(["S"] if typ == "s" else ["F", fn])
            body = [["L", n] for n in names]
            body += refs_here(names) + sets_here() + exports_here(set(names))
            rng.shuffle(body)
            body = fix_set_order(body)
            stm += body
            stm.append(["E"] if typ == "s" else ["EF"])
    org = rng.choice([0, 0x100, 0x1000, 0x8000, 0xc000])
    return {"kind": kind, "cpu": cpu, "org": org, "stm": stm}


def fix_set_order(body):
    """After shuffling, keep SET/R-of-set statements in their original relative order (values depend on order)."""
    idx = [i for i, s in enumerate(body) if s[0] == "SET" or (s[0] == "R" and s[1].startswith("s_"))]
    if not idx:
        return body
    # original order = SET followed by its R; re-derive: stable by insertion - we stored them adjacent before shuffling,
    # so rebuild: collect items, sort so that every R of a set symbol follows the SET that precedes it originally.
    items = [body[i] for i in idx]
    sets = [s for s in items if s[0] == "SET"]
    refs = [s for s in items if s[0] == "R"]
    ordered = sets + refs     # all SETs (original relative order lost is fine: values recomputed by the model)
    for i, s in zip(idx, ordered):
        body[i] = s
    return body


# ------------------------------------------------------------------ model

class Reject(Exception):
    def __init__(self, cls, what):
        Exception.__init__(self, what)
        self.cls = cls


def bpa_of(cpu):
    for c, b in CPUS:
        if c == cpu:
            return b
    return 1


def model(case):
    """Predict.  -> dict(refs=[(byte_addr, value, meta)], exports={name: addr}, syms=[(name, addr, scope)], pools,
    reject=None|(cls, what), nscopes, nlabels)"""
    bpa = bpa_of(case["cpu"])
    addr = case["org"] * bpa
    glob = {}          # name -> (addr, kind, stmt index)
    scopes = []        # list of dict
    cur = None
    scope_no = 0
    setvals = {}
    order = []         # (name, tl) in append order for the pool model
    sym_rows = []
    reject = None
    seen_scope = False
    marker = 0
    # pass 1: definitions
    place = []         # per statement: scope index or None
    markers = []
    laddr = {}
    for i, s in enumerate(case["stm"]):
        op = s[0]
        place.append(cur)
        if op == "L" or op == "F":
            name = s[1]
            a = addr // bpa
            if op == "F" or cur is None:
                if name in glob or name in setvals:
                    if reject is None:
                        reject = ("dup/" + ("func-name" if op == "F" else ("global-after-scope" if seen_scope else "global-before-scope")), name)
                else:
                    glob[name] = (a, "func" if op == "F" else "label", i)
                    order.append(name)
                    sym_rows.append((name, a, 0))
            else:
                tab = scopes[cur]
                if name in tab:
                    if reject is None:
                        reject = ("dup/in-" + ("func" if tab["__type"] == "f" else "scope"), name)
                else:
                    tab[name] = (a, "label", i)
                    order.append(name)
                    sym_rows.append((name, a, cur + 1))
            laddr[i] = a
            marker += 1
            markers.append((addr, 0xa5000000 | marker))
            addr += 4
            if op == "F":
                scopes.append({"__type": "f"})
                cur = len(scopes) - 1
                seen_scope = True
        elif op == "S":
            scopes.append({"__type": "s"})
            cur = len(scopes) - 1
            seen_scope = True
        elif op in ("E", "EF"):
            cur = None
        elif op == "R":
            addr += 4
        elif op == "SET":
            if s[1] not in setvals:
                setvals[s[1]] = None
                order.append(s[1])
    # pass 2: references
    refs = []
    exports = {}
    addr = case["org"] * bpa
    setvals = {}
    localnames = {}
    for k, tab in enumerate(scopes):
        for n in tab:
            if n != "__type":
                localnames.setdefault(n, []).append(k)
    for i, s in enumerate(case["stm"]):
        op = s[0]
        cur = place[i]
        if op in ("L", "F"):
            addr += 4
        elif op == "R":
            name = s[1]
            where = "global" if cur is None else ("func" if scopes[cur]["__type"] == "f" else "scope")
            if name in setvals:
                refs.append((addr, setvals[name], (where, "set", "back", "-")))
            elif cur is not None and name in scopes[cur]:
                a, kd, di = scopes[cur][name]
                sh = "shadows-global" if name in glob else ("also-other-scope" if len(localnames[name]) > 1 else "unique")
                refs.append((addr, a, (where, "local", "fwd" if di > i else "back", sh)))
            elif name in glob:
                a, kd, di = glob[name]
                sh = "shadowed-in-a-scope" if name in localnames else "unique"
                refs.append((addr, a, (where, "global-" + kd, "fwd" if di > i else "back", sh)))
            else:
                if reject is None:
                    reject = ("undefined/" + ("foreign-local" if name in localnames else "nowhere") + "/from-" + where, name)
                refs.append((addr, None, (where, "undefined", "-", "-")))
            addr += 4
        elif op == "SET":
            v = 0
            for t in s[2]:
                v += setvals[t] if isinstance(t, str) else t
            setvals[s[1]] = v
        elif op == "X":
            if s[1] in glob:
                exports[s[1]] = glob[s[1]][0]
    # pool model (first fit from the first pool, as Symbols::append)
    pools = [0]
    pool_of = {}
    for n in order:
        tl = len(n) + 1
        k = 0
        while not (pools[k] + tl + ENTRY < POOL):
            k += 1
            if k == len(pools):
                pools.append(0)
        pools[k] += tl + ENTRY
        pool_of.setdefault(n, []).append(k)
    for n, v in setvals.items():
        sym_rows.append((n, v, 0))
    return {"refs": refs, "exports": exports, "syms": sym_rows, "pools": len(pools), "pool_of": pool_of,
            "reject": reject, "markers": markers, "nscopes": len(scopes), "nlabels": len(order), "bpa": bpa, "end": addr,
            "start": case["org"] * bpa}


def render(case, cpu_override=None):
    out = []
    cpu = case["cpu"] if cpu_override is None else cpu_override
    if cpu:
        out.append("." + cpu)
    out.append(".org 0x%x" % case["org"])
    marker = 0
    for s in case["stm"]:
        op = s[0]
        if op == "L":
            marker += 1
            out.append("%s:" % s[1])
            out.append(".dc32 0x%x" % (0xa5000000 | marker))
        elif op == "F":
            marker += 1
            out.append(".func %s" % s[1])
            out.append(".dc32 0x%x" % (0xa5000000 | marker))
        elif op == "S":
            out.append(".scope")
        elif op == "E":
            out.append(".ends")
        elif op == "EF":
            out.append(".endf")
        elif op == "R":
            out.append(".dc32 %s" % s[1])
        elif op == "SET":
            out.append(".set %s = %s" % (s[1], " + ".join(str(t) for t in s[2])))
        elif op == "X":
            out.append(".export %s" % s[1])
    return "\n".join(out) + "\n"


def bucket(n, edges):
    for e in edges:
        if n <= e:
            return "<=%d" % e
    return ">%d" % edges[-1]


def word(img, a, endian):
    try:
        bs = [img[a + i] for i in range(4)]
    except KeyError:
        return None
    if endian == 1:     # big
        bs.reverse()
    return bs[0] | bs[1] << 8 | bs[2] << 16 | bs[3] << 24


def short_name(n):
    return n if len(n) <= 24 else "%s..(%d)" % (n[:12], len(n))


# ------------------------------------------------------------------ evaluation (worker side)

def compare_image(case, m, img, endian_flag, prefix=""):
    """-> (violations, nt-keys)"""
    viol, nts = [], set()
    # byte order: learnt from the first marker word (0xa5......), the caller's flag is only the fallback
    if m["markers"]:
        a0, v0 = m["markers"][0]
        for e in (0, 1):
            if word(img, a0, e) == v0:
                endian_flag = e
                break
    bad_markers = sum(1 for a, v in m["markers"] if word(img, a, endian_flag) != v)
    if bad_markers:
        viol.append((prefix + "marker-mismatch", "%d of %d marker words differ from the source (image layout differs from "
                     "the model)" % (bad_markers, len(m["markers"]))))
        return viol, nts
    cls = "%s/%s/pools%s/scopes%s" % (case["kind"], case["cpu"] or "default", bucket(m["pools"], [1, 2, 4]),
                                      bucket(m["nscopes"], [0, 1, 8, 50]))
    for a, want, meta in m["refs"]:
        got = word(img, a, endian_flag)
        where, kind, direction, sh = meta
        bp = "/bpa%d" % m["bpa"] if m["bpa"] != 1 else ""
        if got is None:
            viol.append((prefix + "missing-word/%s/%s" % (where, kind), "no 4 bytes emitted at 0x%x for a `.dc32 <name>`" % a))
            continue
        if got != (want & 0xffffffff):
            if kind == "set":
                key = prefix + "set-wrong/%s%s" % (where, bp)
            else:
                key = prefix + "wrong-address/%s/%s/%s/%s%s" % (where, kind, direction, sh, bp)
            viol.append((key, "`.dc32 <name>` at byte address 0x%x (%s reference in %s, %s, %s) emitted 0x%x, the visible "
                         "definition has 0x%x" % (a, kind, where, direction, sh, got, want)))
        else:
            nts.add(cls + "/" + "/".join(meta))
    return viol, nts


def run_case(case):
    vd = core.get_vdrv(timeout_cpu=60)
    m = model(case)
    src = render(case)
    res = {"case": case, "viol": [], "nts": [], "status": None, "stats": {}}
    res["stats"] = {"labels": m["nlabels"], "pools": m["pools"], "scopes": m["nscopes"], "refs": len(m["refs"]),
                    "exports": len(m["exports"])}
    if m["pools"] > 1:
        # the driver enumerates the symbol records after every assembly and Symbols::iterate overruns the pool when
        # there is more than one (survey finding S12); such programs go through the real CLI with -type hex instead
        r = asm_via_cli_hex(src, case["cpu"])
        if r is None:
            res["status"] = "inconclusive"
            return res
        if "crash" in r:
            res["viol"].append(r["crash"])
            res["status"] = "crashed"
            return res
    else:
        r = vd.asm(src)
    if m["reject"] is not None:
        cls, name = m["reject"]
        if r["rc"] == 0:
            res["viol"].append(("accepted/" + cls, "program that must be rejected (%s, name `%s`) assembled without failure"
                                % (cls, short_name(name))))
        elif "rror" not in r["out"]:
            res["viol"].append(("rejected-silently/" + cls, "rejected without a diagnostic"))
        res["status"] = "rejected-checked"
        res["nts"] = ["neg/%s/%s" % (cls, case["cpu"] or "default")]
        return res
    if r["rc"] != 0:
        res["viol"].append(("valid-rejected/%s" % case["kind"], "valid program rejected: %s" % r["out"].strip()[:200]))
        res["status"] = "rejected"
        return res
    if "rror" in r["out"]:
        res["viol"].append(("diagnostic-on-valid/%s" % case["kind"], "valid program assembled with a diagnostic: %s"
                            % r["out"].strip()[:200]))
    v, nts = compare_image(case, m, r["img"], r["endian"])
    res["viol"] += v
    res["nts"] = sorted(nts)
    # symbol records: every record reported by the library's iterator must agree with the model
    # (completeness is judged on the ELF, see cli_case)
    res["status"] = "compared"
    return res


def asm_via_cli_hex(src, cpu):
    os.makedirs(TMPROOT, exist_ok=True)
    d = tempfile.mkdtemp(prefix="c11h_", dir=TMPROOT)
    try:
        core.write_tmp(d, "t.asm", src)
        o = proc.run([core.ARTS["san"]["naken_asm"], "-type", "hex", "-o", "out.hex", "t.asm"], cwd=d, cpu_s=60)
        if o.wall_killed or o.timed_out:
            return None
        if o.san:
            return {"crash": ("hex-cli-sanitizer/" + o.san["sig"], o.san["sig"])}
        if o.signal:
            return {"crash": ("hex-cli-signal/%d" % o.signal, "killed by signal %d" % o.signal)}
        r = {"rc": 0 if o.status == 0 else 1, "out": o.stdout[-4000:] if o.status else
             "\n".join(l for l in o.stdout.split("\n") if "rror" in l), "img": {}, "endian": 1 if cpu == "68000" else 0}
        if o.status == 0:
            try:
                data = open(os.path.join(d, "out.hex"), "rb").read()
            except OSError:
                return {"crash": ("hex-cli-no-output", "exit 0 without output file")}
            img, meta, errs = decode.ihex(data)
            r["img"] = img
        return r
    finally:
        shutil.rmtree(d, ignore_errors=True)


LIST_ROW = re.compile(r"^\s*(\S+) ([0-9a-f]{8}) (\d+)( EXPORTED)?\s*$")


def cli_case(args):
    exe, case = args
    os.makedirs(TMPROOT, exist_ok=True)
    d = tempfile.mkdtemp(prefix="c11_", dir=TMPROOT)
    try:
        m = model(case)
        core.write_tmp(d, "t.asm", render(case))
        o = proc.run([exe, "-l", "-type", "elf", "-o", "out.elf", "t.asm"], cwd=d, cpu_s=60)
        res = {"case": case, "viol": [], "nts": [], "status": "cli", "stats": {}}
        if o.wall_killed or o.timed_out:
            res["status"] = "inconclusive"
            return res
        if o.san:
            if m["pools"] > 1 and o.san["file"] in ("core/Symbols.cpp", "fileio/write_elf.cpp") and \
                    o.san["kind"] in ("asan:heap-buffer-overflow", "asan:SEGV", "ubsan:index-out-of-bounds"):
                # Symbols::iterate keeps the byte offset of the first pool when it moves to the next one (S12): it
                # reads past the pool or hands garbage records (with a random export flag) to print()/write_elf()
                res["viol"].append(("cli-sanitizer/symbol-iteration-overrun/multi-pool", o.san["sig"]))
            else:
                res["viol"].append(("cli-sanitizer/" + o.san["sig"] + ("/multi-pool" if m["pools"] > 1 else ""), o.san["sig"]))
            return res
        if o.signal:
            res["viol"].append(("cli-signal/%d" % o.signal, "killed by signal %d" % o.signal))
            return res
        if m["reject"] is not None:
            if o.status == 0:
                res["viol"].append(("cli-accepted/" + m["reject"][0], "CLI exit 0 on a program that must be rejected"))
            res["nts"].append("cli-neg/" + m["reject"][0])
            return res
        if o.status != 0:
            res["viol"].append(("cli-valid-rejected/%s" % case["kind"], "exit %s: %s" % (o.status, o.stdout[-200:])))
            return res
        try:
            data = open(os.path.join(d, "out.elf"), "rb").read()
        except OSError:
            res["viol"].append(("cli-no-output", "exit 0 without out.elf"))
            return res
        img, meta, errs = decode.elf(data)
        pl = "/multi-pool" if m["pools"] > 1 else ""
        if not img and m["refs"]:
            res["viol"].append(("elf-undecodable" + pl, "no image decoded: %s" % errs[:2]))
            return res
        endian = 1 if case["cpu"] == "68000" else 0
        v, nts = compare_image(case, m, img, endian, prefix="elf-image/")
        res["viol"] += v
        res["nts"] += sorted("elf:" + n for n in nts)
        syms = meta.get("symbols", {})
        for name, a in sorted(m["exports"].items()):
            k = m["pool_of"][name][0]
            where = "first-pool" if k == 0 else "beyond-first-pool"
            ent = [e for e in syms.get(name, []) if e["type"] != 4]
            if not ent:
                res["viol"].append(("elf-export-missing/" + where, "exported symbol `%s` (symbol pool %d) is not in .symtab"
                                    % (short_name(name), k + 1)))
            elif all(e["value"] != a for e in ent):
                res["viol"].append(("elf-export-wrong-value/" + where, "exported `%s` has value 0x%x in .symtab, address is "
                                    "0x%x" % (short_name(name), ent[0]["value"], a)))
            else:
                res["nts"].append("elf-export/" + where)
        # listing rows: every row must be a symbol of the model (completeness is not demanded of the listing)
        try:
            lst = open(os.path.join(d, "out.lst"), "r", errors="replace").read()
        except OSError:
            lst = ""
        want = set(m["syms"])
        i = lst.find(" ADDRESS  SCOPE")
        rows = 0
        if i >= 0 and m["pools"] == 1:     # multi-pool: rows after pool 1 are S12 garbage (keyed via ELF/sanitizer)
            for ln in lst[i:].split("\n")[1:]:
                if ln.startswith(" -> Total"):
                    break
                mm = LIST_ROW.match(ln)
                if not mm:
                    continue
                rows += 1
                row = (mm.group(1), int(mm.group(2), 16), int(mm.group(3)))
                if row not in want:
                    res["viol"].append(("listing-row-unknown" + pl, "listing symbol row %r matches no definition" % (row,)))
                    break
            if rows:
                res["nts"].append("listing-rows" + pl)
        res["stats"] = {"listing_rows": rows, "elf_exports": len(m["exports"])}
        return res
    finally:
        shutil.rmtree(d, ignore_errors=True)


# ------------------------------------------------------------------ case classes

def pool_edge_cases(rng):
    cases = []
    for fill_len in (7, 55, 119, 254):
        esz = ENTRY + fill_len + 1
        for target in (POOL - 1, POOL, POOL + 1):
            n = (POOL - 40) // esz
            # last name length chosen so that ptr + tl + 8 == target
            while True:
                ptr = n * esz
                tl = target - ENTRY - ptr
                if tl > 255:
                    n += 1
                    continue
                if tl < 2:
                    n -= 1
                    continue
                break
            used = set()
            stm = []
            names = [mk_name(rng, used, fill_len) for _ in range(n)]
            edge = mk_name(rng, used, tl - 1)
            after = [mk_name(rng, used, rng.choice([1, 3, 20, fill_len])) for _ in range(6)]
            stm.append(["R", edge])
            stm.append(["R", after[0]])
            for x in names:
                stm.append(["L", x])
            stm.append(["R", names[-1]])
            stm.append(["L", edge])
            stm.append(["R", edge])
            stm.append(["S"])
            stm.append(["L", after[0]])
            stm.append(["L", edge])
            stm.append(["R", edge])
            stm.append(["R", names[0]])
            stm.append(["R", after[0]])
            stm.append(["E"])
            for x in after:
                stm.append(["L", x])
            for x in after + [edge, names[0], names[-1], names[len(names) // 2]]:
                stm.append(["R", x])
            stm.append(["X", edge])
            stm.append(["X", after[1]])
            stm.append(["X", names[0]])
            cases.append({"kind": "pool-edge-%d-%+d" % (fill_len, target - POOL), "cpu": "msp430", "org": 0x100, "stm": stm})
    return cases


def negative_cases(rng, n):
    out = []
    tries = 0
    while len(out) < n and tries < n * 20:
        tries += 1
        cpu = rng.choice(CPUS)[0]
        base = gen_program(rng, rng.randint(3, 40), rng.randint(1, 6), cpu, "neg", longnames=rng.random() < 0.3)
        stm = base["stm"]
        m = model(base)
        if m["reject"]:
            continue
        cls = rng.choice(["dup-global-before", "dup-global-after", "dup-in-scope", "dup-func-name", "foreign", "nowhere"])
        first_scope = next((i for i, s in enumerate(stm) if s[0] in ("S", "F")), None)
        last_end = max((i for i, s in enumerate(stm) if s[0] in ("E", "EF")), default=None)
        # positions at global level
        lvl = []
        cur = None
        for i, s in enumerate(stm):
            lvl.append(cur)
            if s[0] in ("S", "F"):
                cur = i
            elif s[0] in ("E", "EF"):
                cur = None
        lvl.append(None)
        gl = [s[1] for i, s in enumerate(stm) if s[0] == "L" and lvl[i] is None]
        new = list(stm)
        if cls == "dup-global-before":
            nm = "dupq_%d" % rng.randint(0, 999)
            a, b = sorted([rng.randint(0, first_scope), rng.randint(0, first_scope)])
            new.insert(b, ["L", nm])
            new.insert(a, ["L", nm])
        elif cls == "dup-global-after":
            pos = [i for i in range(last_end + 1, len(stm) + 1)]
            early = [s[1] for i, s in enumerate(stm) if s[0] == "L" and lvl[i] is None]
            if early and rng.random() < 0.5:
                nm = rng.choice(early)
                new.insert(rng.choice(pos), ["L", nm])
            else:
                nm = "dupq_%d" % rng.randint(0, 999)
                a, b = sorted([rng.choice(pos), rng.choice(pos)])
                new.insert(b, ["L", nm])
                new.insert(a, ["L", nm])
        elif cls == "dup-in-scope":
            inside = [i for i in range(len(stm)) if lvl[i] is not None]
            loc = [i for i in inside if stm[i][0] == "L"]
            if loc and rng.random() < 0.6:
                j = rng.choice(loc)
                nm = stm[j][1]
                same = [i for i in range(len(stm) + 1) if i < len(lvl) and lvl[i] == lvl[j]]
                new.insert(rng.choice(same), ["L", nm])
            elif inside:
                j = rng.choice(inside)
                nm = "dupq_%d" % rng.randint(0, 999)
                new.insert(j, ["L", nm])
                new.insert(j, ["L", nm])
            else:
                continue
        elif cls == "dup-func-name":
            if not gl:
                continue
            pos = [i for i in range(len(stm) + 1) if lvl[i] is None and (i == len(stm) or stm[i][0] not in ("E", "EF"))]
            j = rng.choice(pos)
            new.insert(j, ["EF"])
            new.insert(j, ["F", rng.choice(gl)])
        elif cls in ("foreign", "nowhere"):
            m0 = model(base)
            if cls == "foreign":
                loc = [(i, s[1]) for i, s in enumerate(stm) if s[0] == "L" and lvl[i] is not None]
                loc = [(i, nm) for i, nm in loc if nm not in gl and nm not in [s[1] for s in stm if s[0] == "F"]]
                if not loc:
                    continue
                j, nm = rng.choice(loc)
                pos = [i for i in range(len(stm) + 1) if lvl[i] != lvl[j] and (i == len(stm) or True)]
                # position i with lvl[i] == None or another scope, and inserting there keeps the block structure
                pos = [i for i in pos if not (i < len(stm) and stm[i][0] in ("E", "EF") and lvl[i] == lvl[j])]
                if not pos:
                    continue
                new.insert(rng.choice(pos), ["R", nm])
            else:
                new.insert(rng.randint(0, len(stm)), ["R", "zz_nowhere_%d" % rng.randint(0, 99)])
        c = {"kind": "neg-" + cls, "cpu": cpu, "org": base["org"], "stm": new}
        mm = model(c)
        if mm["reject"] is None:
            continue
        out.append(c)
    return out


def generate(run):
    rng = run.rng
    quick = run.tier == "quick"
    cases = []
    nsmall = 1000 if quick else 8000
    for i in range(nsmall):
        cpu = rng.choice(CPUS)[0]
        nl = rng.choice([1, 2, 3, 5, 8, 13, 20, 40, 80, 150])
        ns = rng.choice([0, 0, 1, 1, 2, 3, 5, 8, 20])
        cases.append(gen_program(rng, nl, ns, cpu, "rand", longnames=rng.random() < 0.5))
    nbig = 8 if quick else 120
    for i in range(nbig):
        cpu = rng.choice(CPUS)[0]
        nl = rng.choice([800, 1500, 3000, 5000]) if i % 2 == 0 else rng.randint(300, 5000)
        ns = rng.choice([0, 1, 10, 50, 200])
        cases.append(gen_program(rng, nl, ns, cpu, "big", longnames=rng.random() < 0.5, nrefs=min(2000, nl)))
    cases += pool_edge_cases(rng)
    cases += negative_cases(rng, 60 if quick else 1500)
    return cases


# ------------------------------------------------------------------ driver side

def consume(run, r):
    if run.handle_common(r):
        return
    if "_crash" in r:
        ci = r["_crash"]
        case = r["_item"]
        if isinstance(case, tuple):
            case = case[1]
        if ci["kind"] in ("inconclusive", "lost"):
            run.inconc(ci["sig"], {"kind": case.get("kind")})
            return
        run.count()
        run.violation("crash/%s/%s" % (ci["sig"], case["kind"].split("-")[0]), case, "%s while assembling" % ci["sig"])
        return
    if r["status"] == "inconclusive":
        run.inconc("cli watchdog", {"kind": r["case"]["kind"]})
        return
    run.count()
    for k in r["nts"]:
        run.nt(k)
    st = r["status"] or "other"
    run.cov["status_" + st] = run.cov.get("status_" + st, 0) + 1
    s = r.get("stats") or {}
    for k in ("refs", "exports", "listing_rows", "elf_exports"):
        if k in s:
            run.cov["n_" + k] = run.cov.get("n_" + k, 0) + s[k]
    if st == "compared":
        run.cov["max_labels"] = max(run.cov.get("max_labels", 0), s.get("labels", 0))
        run.cov["max_pools"] = max(run.cov.get("max_pools", 0), s.get("pools", 0))
        run.cov["max_scopes"] = max(run.cov.get("max_scopes", 0), s.get("scopes", 0))
        if s.get("pools", 0) > 1:
            run.cov["programs_multi_pool"] = run.cov.get("programs_multi_pool", 0) + 1
    for key, desc in r["viol"]:
        run.violation(key, r["case"], desc)
    if st == "compared" and len(run.samples) < 4 and s.get("labels", 99) <= 8 and s.get("scopes", 0) >= 1:
        run.sample({"kind": r["case"]["kind"], "source": render(r["case"])})


def evaluate_cases(run, cases, cli_cases):
    for r in core.pmap(run_case, cases):
        yield r
    exe = core.ARTS["san"]["naken_asm"]
    for r in core.pmap(cli_case, [(exe, c) for c in cli_cases], chunk=2):
        yield r


def with_export(case):
    """write_elf with zero exported symbols trips UBSan (zero-length VLA, not this property): make sure an ELF case
    exports at least one symbol; cases without any global label are dropped from the ELF sample."""
    m = model(case)
    if m["exports"]:
        return case
    for s in case["stm"]:
        if s[0] == "F":
            return dict(case, stm=case["stm"] + [["X", s[1]]])
    cur = None
    for s in case["stm"]:
        if s[0] == "S":
            cur = 1
        elif s[0] in ("E", "EF"):
            cur = None
        elif s[0] == "L" and cur is None:
            return dict(case, stm=case["stm"] + [["X", s[1]]])
    return None


def replay_keys(run, cases):
    out = []
    for c in cases:
        keys = set()
        cli = with_export(dict(c, cpu=c["cpu"] if c["cpu"] in ELF_CPUS else "msp430"))
        for r in evaluate_cases(run, [c], [cli] if cli else []):
            if "_crash" in r:
                keys.add("crash/%s/%s" % (r["_crash"]["sig"], c["kind"].split("-")[0]))
            elif "viol" in r:
                keys.update(k for k, _ in r["viol"])
        out.append({re.sub(r"\s+", "_", k) for k in keys})
    return out


def main(run):
    run.build("san")
    cases = generate(run)
    quick = run.tier == "quick"
    rng = run.rng
    # CLI sample (ELF needs a CPU; byte-addressed CPUs only so that "address" is unambiguous)
    pick = [c for c in cases if c["kind"] in ("rand",)]
    ncli = 40 if quick else 600
    cli = [dict(c, cpu=rng.choice(ELF_CPUS)) for c in rng.sample(pick, min(ncli, len(pick)))]
    cli += [dict(c, cpu=rng.choice(ELF_CPUS)) for c in cases if c["kind"].startswith("pool-edge")]
    big = [c for c in cases if c["kind"] == "big"]
    cli += [dict(c, cpu=rng.choice(ELF_CPUS)) for c in big[:4 if quick else 40]]
    neg = [c for c in cases if c["kind"].startswith("neg-")]
    cli += [dict(c, cpu=rng.choice(ELF_CPUS)) for c in neg[:12 if quick else 200]]
    cli = [c for c in (with_export(c) for c in cli) if c is not None]
    for r in evaluate_cases(run, cases, cli):
        consume(run, r)
    run.exhaustive = False
    run.assumptions = [
        "every label is followed by a unique marker word, so distinct definitions have distinct addresses",
        ".set symbols use names disjoint from labels and are referenced only after their first assignment "
        "(the value of a .set symbol read before its first assignment is not judged)",
        "label address = byte address / bytes_per_address of the selected CPU (.org is in address units)",
        "ELF/.symtab facts are judged on byte-addressed CPUs only (msp430, 68000, z80); the listing symbol table is only "
        "required to contain no row that contradicts the model (completeness is demanded of .symtab, not of the listing)",
        "a reference to a name that exists only as a local label of another scope must make assembly fail",
        "nested scopes, .export of local names, names longer than 254 and more than 200 scopes are outside the domain",
    ]
    run.require(">= 150 programs compared with the resolver", run.cov.get("status_compared", 0) >= 150)
    run.require(">= 2000 references compared", run.cov.get("n_refs", 0) >= 2000)
    run.require("a program with more than one symbol pool was compared", run.cov.get("max_pools", 0) >= 2)
    run.require("negative programs exercised", run.cov.get("status_rejected-checked", 0) >= 20)
    run.require("CLI/ELF sample ran", run.cov.get("status_cli", 0) >= 20)
    run.require("listing symbol rows and ELF exports observed", run.cov.get("n_listing_rows", 0) >= 50 and run.cov.get("n_elf_exports", 0) >= 20)
    return run.finish(lambda cs: replay_keys(run, cs))


def replay_cli(doc, seed):
    run = core.Run("C11", "quick", seed, RULE)
    run.build("san")
    case = doc.get("case", doc)
    keys = replay_keys(run, [case])[0]
    want = doc.get("key")
    if keys:
        print("VIOLATION property=C11 replay=- keys=%s" % sorted(keys))
        return 1
    print("replay: no violation")
    return 0
