"""C01 clause (c): emitted bytes of MSP430-core and RV32I instructions equal the
encodings the architecture manuals define (reference encoders in vf/ref)."""
import zlib

from .. import core, driver, rt
from ..ref import msp430enc, rv32i


def all_cases():
    cs = []
    for pc in (0x1000, 0x8000):
        for text, encs, form in msp430enc.cases(pc):
            cs.append(("msp430", pc, text, sorted(e.hex() for e in encs), form))
    for pc in (0x1000, 0x200000):
        for text, word, form in rv32i.cases(pc):
            cs.append(("riscv", pc, text, [word.to_bytes(4, "little").hex()], form))
        cs.append(("riscv", pc, "fence", [(0x0ff0000f).to_bytes(4, "little").hex()], "fence"))
    return cs


def work(chunk):
    vd = core.get_vdrv(20)
    vd.set_timeout(3)
    out = []
    for cpu, pc, text, encs, form in chunk:
        try:
            r = rt.asm_text(vd, cpu, pc, text, 1, delay_nop=False)
        except driver.Died as e:
            ci = core.crash_info(e)
            out.append((cpu, pc, text, form, "crash", ci["sig"]))
            continue
        if not r["ok"]:
            out.append((cpu, pc, text, form, "rejected", r["out"].strip()[-100:]))
        elif r["bytes"].hex() in encs and r["lo"] == pc:
            out.append((cpu, pc, text, form, "match", None))
        else:
            out.append((cpu, pc, text, form, "mismatch", "emitted %s at 0x%x, manual encoding %s" % (r["bytes"].hex(), r["lo"], " or ".join(encs))))
    return out


def judge(res):
    """-> list of (key, instance, case, desc)"""
    v = []
    for cpu, pc, text, form, status, det in res:
        case = {"clause": "c", "cpu": cpu, "pc": pc, "text": text}
        inst = "c%08x" % zlib.crc32(("%s|%x|%s" % (cpu, pc, text)).encode())
        if status == "mismatch":
            v.append(("%s/%s/manual-encoding" % (cpu, form), inst, case, "%s `%s` at 0x%x: %s" % (cpu, text, pc, det)))
        elif status == "rejected":
            v.append(("%s/%s/manual-form-rejected" % (cpu, form), inst, case, "%s `%s` at 0x%x rejected: %s" % (cpu, text, pc, det)))
        elif status == "crash":
            v.append(("%s/%s/%s" % (cpu, form, det), inst, case, "%s `%s`: %s" % (cpu, text, det)))
    return v


def run_clause_c(run, cpuinfo):
    cs = all_cases()
    chunks = [cs[i:i + 200] for i in range(0, len(cs), 200)]
    stats = {}
    for res in core.pmap(work, chunks, chunk=1):
        if isinstance(res, dict):
            run.handle_common(res)
            continue
        for r in res:
            run.count()
            stats[r[4]] = stats.get(r[4], 0) + 1
            if r[4] == "match":
                run.nt(("manual", r[0], r[3]))
        for key, inst, case, desc in judge(res):
            run.violation(key, case, desc, instance=inst)
    run.cov["clause_c"] = stats
    run.require("clause (c): >= 1500 reference encodings compared", stats.get("match", 0) + stats.get("mismatch", 0) >= 1500)


def replay(case):
    want = None
    for c in all_cases():
        if c[0] == case["cpu"] and c[1] == case["pc"] and c[2] == case["text"]:
            want = c
    if want is None:
        return set()
    core.reset_vdrv()
    return {k for k, _, _, _ in judge(work([want]))}
