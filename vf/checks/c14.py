"""C14 - the MSP430 simulator executes every instruction as the architecture defines.

Monitor: reference executor (vf/ref/c14_msp430.py, written from the family user's guide) against one
single step of the real simulator (sanitizer build) driven through the in-process driver: registers,
SR flags, memory diff, PC and the cycle count of the step are compared; facets the guide leaves
undefined are masked by the reference (Skip), never guessed.
"""
import os
import re
import shutil
import tempfile

from .. import core, driver, proc
from ..fmt import decode
from ..ref import c14_msp430 as R

RULE = ("single steps of the msp430 simulator from prepared states: every first opcode word 0x0000-0xffff (thorough) or a "
        "stratified sample containing every (operation, size, source register, As, Ad) combination of format I, every "
        "format-II word 0x1000-0x137f and a seeded sample of jumps (quick), each with extension words and registers tailored so "
        "that the source/destination operands take 24 fixed (source, destination) value pairs at carry/overflow/BCD "
        "boundaries x 2 flag inputs (48 states, every pair with both carry inputs; all 16 C/Z/N/V inputs for jumps; quick: 12 seeded "
        "states of the 48 per word). distinct_nontrivial = "
        "distinct (mnemonic, size, source mode, destination mode, carry input) with at least one unmasked comparison.")

PC0 = 0x1000
SP0 = 0x0400
DATA_LO, DATA_HI = 0x0180, 0x0480
CODE_LO, CODE_HI = 0x0fe0, 0x1040
TABLE = 0x0200

PAIRS = [(0, 0), (1, 0), (0, 1), (1, 0xffff), (0xffff, 1), (0x7fff, 1), (1, 0x7fff), (0x8000, 0x8000),
         (0x8000, 0), (0, 0x8000), (0x8000, 0x7fff), (0x7fff, 0x8000), (0xffff, 0xffff), (0x00ff, 0x0001),
         (0x0080, 0x0080), (0x0080, 0x007f), (0x0001, 0x00ff), (0x0100, 0x00ff), (0x1234, 0x5678),
         (0x0999, 0x0001), (0x9999, 0x0001), (0x5555, 0xaaaa), (0xff80, 0x0080), (0x0000, 0x00ff)]
TVALS = []
for _p in PAIRS:
    for _v in _p:
        if _v not in TVALS:
            TVALS.append(_v)
EXTS = [0, 2, 0xfffe, 0x8000]
NSTATE = 24


def _base_image():
    b = bytearray(65536)
    for a in range(DATA_LO, DATA_HI):
        b[a] = ((a * 37) ^ (a >> 3) ^ 0x5a) & 0xff
    for a in range(CODE_LO, CODE_HI):
        b[a] = ((a * 11) ^ 0xc3) & 0xff
    for i, v in enumerate(TVALS):
        b[TABLE + 2 * i] = v & 0xff
        b[TABLE + 2 * i + 1] = v >> 8
    b[SP0:SP0 + 4] = bytes([0x05, 0x01, 0x34, 0x12])     # RETI frame: SR=0x0105, PC=0x1234
    return b


BASE = _base_image()


def addr_of(v, bw, k):
    return TABLE + 2 * TVALS.index(v)


def sr_of(k):
    i = (k * 5 + 3) % 16
    sr = (R.FC if i & 1 else 0) | (R.FZ if i & 2 else 0) | (R.FN if i & 4 else 0) | (R.FV if i & 8 else 0)
    if k >= NSTATE:
        sr ^= R.FC
    if k % 3 == 0:
        sr |= 0x08
    return sr


def make_case(op, k):
    """Tailor registers and extension words to opcode `op` so that its operands take PAIRS[k % 24]."""
    s, d = PAIRS[k % NSTATE]
    regs = [PC0, SP0, sr_of(k), 0] + [0x0240 + 2 * i for i in range(12)]
    ext = []

    def place(reg, mode, val, is_src):
        ea = PC0 + 2 + 2 * len(ext)
        if R.is_cg(reg, mode) and is_src:
            return
        if reg == 3:
            return
        if mode == 0:
            if reg >= 4:
                regs[reg] = val
            return
        a = addr_of(val, 0, k)
        if op >= 0x1000 and (op >> 6) & 1 and k & 2:
            a += 1           # byte operand at an odd address (the high byte of the table word)
        if mode == 1:
            if reg == 0:
                ext.append((a - ea) & 0xffff)
            elif reg == 2:
                ext.append(a)
            else:
                e = EXTS[(k + (0 if is_src else 1)) % 4]
                regs[reg] = (a - e) & 0xffff
                ext.append(e)
            return
        if reg == 0:
            if mode == 3:
                ext.append(val)
            return
        if reg != 2:
            regs[reg] = a

    if 0x1000 <= op < 0x1400:
        place(op & 15, (op >> 4) & 3, s, True)
    elif op >= 0x4000:
        place((op >> 8) & 15, (op >> 4) & 3, s, True)
        place(op & 15, (op >> 7) & 1, d, False)
    elif 0x2000 <= op < 0x4000:
        i = k % 16
        regs[2] = (R.FC if i & 1 else 0) | (R.FZ if i & 2 else 0) | (R.FN if i & 4 else 0) | (R.FV if i & 8 else 0)
    while len(ext) < 2:
        ext.append(0x4303)     # nop
    return {"op": op, "ext": ext, "regs": regs}


def is_byte_indirect(op):
    if 0x1000 <= op < 0x1380:
        reg, As, bw = op & 15, (op >> 4) & 3, (op >> 6) & 1
    elif op >= 0x4000:
        reg, As, bw = (op >> 8) & 15, (op >> 4) & 3, (op >> 6) & 1
    else:
        return False
    return bool(bw and As >= 2 and reg != 0 and not R.is_cg(reg, As))


def code_bytes(case):
    w = [case["op"]] + list(case["ext"])
    return b"".join(bytes([x & 0xff, (x >> 8) & 0xff]) for x in w)


_CYC = re.compile(r"(\d+) clock cycles have passed")
_MEM_CACHE = {}


def run_case(case):
    """Worker: reference step, simulator step, comparison."""
    op = case["op"]
    code = code_bytes(case)
    regs = case["regs"]
    pc = regs[0]

    def rd8(a):
        if pc <= a < pc + len(code):
            return code[a - pc]
        return BASE[a]

    out = {"case": case, "viol": [], "status": None, "nt": None, "why": None}
    try:
        exp = R.step(regs, rd8)
    except R.Skip as e:
        out["status"] = "masked"
        out["why"] = e.args[0]
        return out
    if exp.byte_indirect and not case.get("bi"):
        out["status"] = "excluded"
        out["why"] = "byte-indirect-source"
        return out
    size = ".b" if exp.bw else ".w"
    mn = exp.mn
    if mn in R.JUMPS:
        size = "-"
    vd = core.get_vdrv()
    code_lo = bytearray(BASE[CODE_LO:CODE_HI])
    code_lo[pc - CODE_LO:pc - CODE_LO + len(code)] = code
    sregs = [("pc", regs[0])] + [("r%d" % i, regs[i]) for i in range(1, 16)]
    try:
        r = vd.sim("msp430", regs=sregs, mem=[(DATA_LO, bytes(BASE[DATA_LO:DATA_HI])), (CODE_LO, bytes(code_lo))],
                   getregs=["r%d" % i for i in range(16)], steps=1)
    except driver.Died as e:
        if not exp.byte_indirect:
            raise
        ci = core.crash_info(e)
        if ci["kind"] in ("inconclusive", "lost"):
            raise
        out["viol"].append(("@Rn/.b/indexes-register-file", "%s: byte @Rn source read died: %s" % (describe(case), ci["sig"])))
        out["status"] = "compared"
        return out
    v = []
    got = [r["regs"]["r%d" % i] for i in range(16)]
    if r["badreg"]:
        raise RuntimeError("driver rejected a register name")
    if r["exit"]:
        v.append(("exit", "exit(%d) called inside the step" % r["exitcode"]))
    elif r["rc"] != 0:
        v.append(("rejected", "run() returned %d (%s)" % (r["rc"], r["runout"].strip()[-60:])))
    else:
        if mn in R.TWO_OP.values():
            dreg = op & 15 if not (op >> 7) & 1 else None
        elif mn in ("rrc", "rra", "swpb", "sxt") and not (op >> 4) & 3:
            dreg = op & 15
        else:
            dreg = None
        for i in range(16):
            if i in exp.regmask or i == 2:
                continue
            if got[i] == exp.regs[i]:
                continue
            if i == exp.autoinc:
                fac = "autoinc"
            elif i == 0:
                fac = "PC"
            elif i == 1:
                fac = "SP"
            elif i == 3:
                fac = "CG"
            elif i == dreg:
                fac = "dst"
            else:
                fac = "reg"
            v.append((fac, "r%d = 0x%04x, architecture 0x%04x" % (i, got[i], exp.regs[i])))
        sd = (got[2] ^ exp.regs[2]) & exp.srmask
        for bit, nm in ((R.FC, "C"), (R.FZ, "Z"), (R.FN, "N"), (R.FV, "V")):
            if sd & bit:
                v.append((nm, "%s = %d, architecture %d (SR 0x%04x vs 0x%04x)" % (nm, 1 if got[2] & bit else 0,
                                                                                   1 if exp.regs[2] & bit else 0, got[2], exp.regs[2])))
        if sd & ~R.FLAGS:
            v.append(("SR", "SR = 0x%04x, architecture 0x%04x" % (got[2], exp.regs[2])))
        want = {}
        masked = set()
        for a, b in exp.writes.items():
            if b is None:
                masked.add(a)
            elif b != rd8(a):
                want[a] = b
        diff = {a: b for a, b in r["diff"].items() if a not in masked}
        if diff != want:
            aa = sorted(set(diff) | set(want))[:4]
            v.append(("mem", "memory after step %s, architecture %s" % (
                ["%04x:%s" % (a, "%02x" % diff[a] if a in diff else "--") for a in aa],
                ["%04x:%s" % (a, "%02x" % want[a] if a in want else "--") for a in aa])))
        m = _CYC.search(r["dump"])
        if m is None:
            raise RuntimeError("no cycle count in register dump")
        if exp.cycles is not None and int(m.group(1)) != exp.cycles:
            v.append(("cycles", "%s cycles reported, guide says %d" % (m.group(1), exp.cycles)))
    dsc = describe(case)
    if exp.byte_indirect:
        if v:
            out["viol"].append(("@Rn/.b/indexes-register-file", "%s: %s" % (dsc, "; ".join(d for _, d in v))))
    elif mn == "reti":
        if v:
            out["viol"].append(("reti/-/state", "%s: %s" % (dsc, "; ".join(d for _, d in v)[:300])))
    else:
        for fac, d in v:
            if fac == "autoinc":
                key = "%s/%s/autoinc" % ("@SP+" if exp.autoinc == 1 else "@Rn+", size)
            elif fac == "cycles" and mn in R.TWO_OP.values():
                # timing depends on the addressing modes only: one key per mode pair, not per operation
                sm = {"PC": "Rn", "SP": "Rn", "SR": "Rn", "x(SP)": "x(Rn)", "@SP": "@Rn", "@SP+": "@Rn+"}.get(exp.smode, exp.smode)
                dm = {"SP": "Rn", "SR": "Rn", "CG": "Rn", "x(SP)": "x(Rn)"}.get(exp.dmode, exp.dmode)
                key = "cycles/->sym" if dm == "sym" else "cycles/%s->%s" % (sm, dm)
            else:
                key = "%s/%s/%s" % (mn, size, fac)
            out["viol"].append((key, "%s: %s" % (dsc, d)))
    out["status"] = "compared"
    out["nt"] = "%s%s %s,%s c%d" % (mn, size, exp.smode, exp.dmode, regs[2] & 1)
    out["cyc"] = exp.cycles is not None
    return out


def describe(case):
    info = R.decode_info(case["op"])
    nm = "%s%s %s,%s" % (info[0], ".b" if info[1] else "", info[2], info[3]) if info else "?"
    rs = " ".join("r%d=%04x" % (i, x) for i, x in enumerate(case["regs"]) if i < 3 or i in (case["op"] & 15, (case["op"] >> 8) & 15))
    return "opcode 0x%04x [%s] ext=%s %s" % (case["op"], nm, ["%04x" % e for e in case["ext"]], rs)


def nstates(op):
    info = R.decode_info(op)
    if info is None:
        return 1
    if info[0] in R.JUMPS:
        return 16
    return 2 * NSTATE


def generate(run):
    rng = run.rng
    cases = []
    bi_ops = []
    if run.tier == "quick":
        ops = []
        # every (operation, sreg, Ad, bw, As) of format I with two seeded destination registers
        for hi in range(0x400, 0x1000):
            for dreg in rng.sample(range(16), 2):
                ops.append((hi << 4) | dreg)
        ops += list(range(0x1000, 0x1380))
        ops += rng.sample(range(0x2000, 0x4000), 640)
        ops += rng.sample(range(0x0000, 0x1000), 8) + rng.sample(range(0x1380, 0x2000), 8)
        for op in ops:
            n = nstates(op)
            if is_byte_indirect(op):
                bi_ops.append(op)
                continue
            for k in rng.sample(range(n), min(n, 12)):
                cases.append(make_case(op, k))
        nbi = 4
    else:
        for op in range(0x10000):
            if is_byte_indirect(op):
                bi_ops.append(op)
                continue
            for k in range(nstates(op)):
                cases.append(make_case(op, k))
        nbi = 16
    # byte @Rn/@Rn+ sources read reg[address] (outside the register file): only a small sample is executed
    for op in rng.sample(bi_ops, nbi):
        c = make_case(op, rng.randrange(NSTATE))
        c["bi"] = 1
        cases.append(c)
    run.cov["byte_indirect_opcodes_excluded"] = len(bi_ops) - nbi
    return cases


# ------------------------------------------------------------------ naken_util -run

RUN_BOUND = [0, 1, 2, 4, 8, 0xffff, 0x7fff, 0x8000, 0x00ff, 0x0080, 0x007f, 0x0100, 0x1234, 0xfffe, 0x5555, 0xaaaa]
BREAK_IO = 0x0100


def gen_routine(rng, idx):
    """A routine built from instructions whose single-step behaviour has no listed finding except V
    (which is masked in the final comparison): no sub.b/cmp.b/sxt/xor-V users/jge/jl/byte @Rn/reti/symbolic mode."""
    kind = ("straight", "loop", "call", "nested", "break_io")[idx % 5]
    cyc = rng.random() < 0.6          # keep to instructions whose timing is the same in every guide revision
    lab = [0]

    def val():
        return rng.choice(RUN_BOUND) if rng.random() < 0.7 else rng.getrandbits(16)

    def dreg():
        return "r%d" % rng.randint(4, 12)

    def src(bw):
        c = rng.randrange(6 if not bw else 4)
        if c == 0:
            return dreg()
        if c == 1:
            return "#0x%04x" % (val() & (0xff if bw else 0xffff))
        if c == 2:
            return "&0x%04x" % (0x0220 + (rng.randrange(32) if bw else 2 * rng.randrange(16)))
        if c == 3:
            return "%d(r15)" % (rng.randrange(32) if bw else 2 * rng.randrange(16))
        if c == 4:
            return "@r15"
        return "@r14+"

    def dst(bw, mem_ok):
        c = rng.randrange(4) if mem_ok else 0
        if c <= 1:
            return dreg()
        if c == 2:
            return "&0x%04x" % (0x0220 + (rng.randrange(32) if bw else 2 * rng.randrange(16)))
        return "%d(r15)" % (rng.randrange(32) if bw else 2 * rng.randrange(16))

    def insn():
        c = rng.random()
        if c < 0.62:
            bw = rng.random() < 0.3
            ops = ["mov", "add", "addc", "subc", "and", "bis", "bic", "xor", "bit"] + ([] if bw else ["sub", "cmp"])
            mn = rng.choice(ops)
            return ["  %s.%s %s, %s" % (mn, "b" if bw else "w", src(bw), dst(bw, not (cyc and mn in ("mov", "bit", "cmp"))))]
        if c < 0.74:
            bw = rng.random() < 0.3
            return ["  %s.%s %s" % (rng.choice(["rra", "rrc"]), "b" if bw else "w", dreg())]
        if c < 0.80:
            return ["  swpb %s" % dreg()]
        if c < 0.90:
            return ["  push.w %s" % dreg()] + ["  add.w #0x%04x, %s" % (val(), dreg())] + ["  pop.w %s" % dreg()]
        lab[0] += 1
        l = "s%d_%d" % (idx % 1000, lab[0])
        return ["  %s %s" % (rng.choice(["jc", "jnc", "jz", "jnz", "jn", "jmp"]), l)] + \
               ["  add.w #0x%04x, %s" % (val(), dreg()) for _ in range(rng.randint(1, 2))] + ["%s:" % l]

    def block(n):
        out = []
        for _ in range(n):
            out += insn()
        return out

    lines = [".msp430", ".org 0xf000", "start:", "  mov.w #0x0200, r15", "  mov.w #0x0240, r14"]
    for i in range(4, 14):
        lines.append("  mov.w #0x%04x, r%d" % (val(), i))
    for i in range(rng.randint(2, 6)):
        st = "bis.w" if cyc else "mov.w"       # RAM starts as zero; MOV into memory is timed differently by guide revisions
        lines.append("  %s #0x%04x, &0x%04x" % (st, val(), 0x0220 + 2 * rng.randrange(16)))
        lines.append("  %s #0x%04x, &0x%04x" % (st, val(), 0x0240 + 2 * i))
    subs = []
    if kind == "straight":
        lines += block(rng.randint(4, 30))
    elif kind == "loop":
        lines += block(rng.randint(0, 4))
        lines += ["  mov.w #%d, r13" % rng.randint(1, 6), "loop1:"] + block(rng.randint(1, 5)) + ["  sub.w #1, r13", "  jnz loop1"]
        lines += block(rng.randint(0, 4))
    elif kind in ("call", "nested"):
        lines += block(rng.randint(0, 4)) + ["  call #f1"] + block(rng.randint(0, 4))
        if rng.random() < 0.5:
            lines += ["  call #f1"]
        subs += ["f1:"] + block(rng.randint(1, 5))
        if kind == "nested":
            subs += ["  call #f2"] + block(rng.randint(0, 3)) + ["  ret", "f2:"] + block(rng.randint(1, 4))
        subs += ["  ret"]
    else:
        lines += block(rng.randint(1, 8)) + ["  mov.b #%d, &0x%04x" % (rng.choice([0, 1, 5, 42, 76, 78, 127, 200, 255]), BREAK_IO)] + block(rng.randint(1, 4))
    lines += ["  ret"] + subs + [".org 0xfffe", "  dw start"]
    return {"kind": "run", "shape": kind, "cyc": cyc, "src": "\n".join(lines) + "\n", "break_io": BREAK_IO if kind == "break_io" else None}


def ref_run(img, break_io):
    """Execute the image with the reference until the unmatched ret / the break_io write."""
    mem = dict(img)
    regs = [0] * 16
    regs[0] = mem.get(0xfffe, 0) | (mem.get(0xffff, 0) << 8)
    regs[1] = 0x0800
    depth = 0
    cycles = 0
    cyc_known = True
    for n in range(600):
        op = mem.get(regs[0], 0) | (mem.get(regs[0] + 1, 0) << 8)
        try:
            exp = R.step(regs, lambda a: mem.get(a, 0))
        except R.Skip as e:
            return ("masked", e.args[0])
        if exp.byte_indirect:
            return ("masked", "byte-indirect-source")
        c = exp.cycles
        if c is None:
            if op == 0x4130:
                c = 3
            elif op == 0x12b0:
                c = 5
            elif (op & 0xffb0) == 0x1200:
                c = 3
            else:
                c = 0
                cyc_known = False
        cycles += c
        for a, b in exp.writes.items():
            if b is None:
                return ("masked", "push.b")
            if break_io is not None and a == break_io and exp.bw:
                return ("exit", b)
            mem[a] = b
        regs = list(exp.regs)
        regs[3] = 0
        if op == 0x4130:
            depth -= 1
        elif exp.mn == "call":
            depth += 1
        if depth < 0:
            return ("ret", regs, cycles, cyc_known, n + 1)
    return ("masked", "too-long")


_ANSI = re.compile(r"\x1b\[[0-9;]*[A-Za-z]")
_DUMP_REG = re.compile(r"\b(PC|SP|SR|CG|r\d+): 0x([0-9a-f]{4}),")


def cli_case(case):
    d = tempfile.mkdtemp(prefix="c14_", dir=os.path.join(core.VERIF, ".work", "tmp"))
    out = {"case": case, "viol": [], "status": None, "nt": None, "why": None, "cli": True}
    try:
        core.write_tmp(d, "t.asm", case["src"])
        o = proc.run([core.ARTS["san"]["naken_asm"], "-type", "hex", "-o", "t.hex", "t.asm"], cwd=d, cpu_s=10)
        if o.status != 0 or o.san or "t.hex" not in o.files:
            out["status"] = "inconclusive"
            out["why"] = "naken_asm did not assemble the generated routine: %s" % (o.stdout.strip()[-200:])
            return out
        img, _, errs = decode.ihex(open(os.path.join(d, "t.hex"), "rb").read())
        if errs:
            out["status"] = "inconclusive"
            out["why"] = "hex file not decodable: %s" % errs[:2]
            return out
        ref = ref_run(img, case["break_io"])
        if ref[0] == "masked":
            out["status"] = "masked"
            out["why"] = "run:" + ref[1]
            return out
        argv = [core.ARTS["san"]["naken_util"], "-msp430"]
        if case["break_io"] is not None:
            argv += ["-break_io", "0x%04x" % case["break_io"]]
        o = proc.run(argv + ["-run", "t.hex"], cwd=d, cpu_s=10, wall_s=60, max_out=8 << 20)
        out["status"] = "compared"
        out["nt"] = "run:%s:%s" % (case["shape"], "exit" if ref[0] == "exit" else ("cycles" if ref[3] else "nocycles"))
        if o.san:
            out["viol"].append(("run/sanitizer/" + o.san["sig"], "naken_util -run: %s" % o.san["sig"]))
            return out
        if o.signal or o.timed_out or o.wall_killed:
            out["viol"].append(("run/no-termination", "naken_util -run: signal %s timed_out %s (reference ends after %s)" % (
                o.signal, o.timed_out, ref[4] if ref[0] == "ret" else "break_io write")))
            return out
        if ref[0] == "exit":
            if o.status != ref[1]:
                out["viol"].append(("run/break_io-status", "exit status %s, byte written to -break_io address is %d" % (o.status, ref[1])))
            return out
        if o.status != 0:
            out["viol"].append(("run/exit-status", "exit status %s for a routine that ends with ret" % o.status))
            return out
        text = _ANSI.sub("", o.stdout)
        i = text.rfind("Simulation Register Dump")
        if i < 0:
            out["viol"].append(("run/no-register-dump", "no register dump in the output"))
            return out
        got = {m.group(1): int(m.group(2), 16) for m in _DUMP_REG.finditer(text[i:])}
        m = _CYC.search(text[i:])
        regs = ref[1]
        bad = []
        for nm, idx in [("PC", 0), ("SP", 1)] + [("r%d" % k, k) for k in range(4, 16)]:
            if got.get(nm) != regs[idx]:
                bad.append("%s=%s (reference 0x%04x)" % (nm, "0x%04x" % got[nm] if nm in got else "missing", regs[idx]))
        if bad:
            key = "run/ends-elsewhere" if got.get("PC") != regs[0] or got.get("SP") != regs[1] else "run/registers"
            out["viol"].append((key, "after -run: " + ", ".join(bad[:6])))
        fm = R.FC | R.FZ | R.FN
        if "SR" in got and (got["SR"] ^ regs[2]) & fm:
            out["viol"].append(("run/flags", "after -run: SR=0x%04x, reference 0x%04x (C/Z/N compared)" % (got["SR"], regs[2])))
        if m is None:
            out["viol"].append(("run/no-cycle-count", "no cycle total in the output"))
        elif ref[3] and int(m.group(1)) != ref[2]:
            out["viol"].append(("run/cycles", "%s cycles reported for %d executed instructions, guide table sums to %d" % (m.group(1), ref[4], ref[2])))
        return out
    finally:
        shutil.rmtree(d, ignore_errors=True)


def evaluate(cases):
    step = [c for c in cases if c.get("kind") != "run"]
    cli = [c for c in cases if c.get("kind") == "run"]
    if step:
        for r in core.pmap(run_case, step, chunk=512 if len(step) > 2000 else 1, nproc=None if len(step) > 1 else 1):
            yield r
    if cli:
        for r in core.pmap(cli_case, cli, chunk=2, nproc=None if len(cli) > 1 else 1):
            yield r


def crash_key(r):
    info = R.decode_info(r["_item"]["op"])
    return "crash/%s/%s" % (r["_crash"]["sig"], info[0] if info else "undefined")


def consume(run, r):
    if run.handle_common(r):
        return
    if "_crash" in r:
        ci = r["_crash"]
        if ci["kind"] in ("inconclusive", "lost"):
            run.inconc(ci["sig"], r["_item"])
            return
        run.count()
        run.violation(crash_key(r), r["_item"], "%s: %s" % (describe(r["_item"]), ci["sig"]))
        return
    run.count()
    st = r["status"]
    if st == "inconclusive":
        run.inconc(r["why"], r["case"])
        return
    if r.get("cli") and st == "compared":
        run.cov["run_compared"] = run.cov.get("run_compared", 0) + 1
        run.cov.setdefault("run_classes", {})
        run.cov["run_classes"][r["nt"]] = run.cov["run_classes"].get(r["nt"], 0) + 1
        run.nt(r["nt"])
        for key, desc in r["viol"]:
            run.violation(key, r["case"], desc)
        if len([x for x in run.samples if "routine" in x]) < 2:
            run.samples.append({"routine": r["case"]["src"][:600], "result": "violations: %d" % len(r["viol"])})
        return
    if st != "compared":
        k = "%s:%s" % (st, r["why"])
        run.cov.setdefault("not_judged", {})
        run.cov["not_judged"][k] = run.cov["not_judged"].get(k, 0) + 1
        return
    run.cov["compared"] = run.cov.get("compared", 0) + 1
    if r.get("cyc"):
        run.cov["cycle_counts_compared"] = run.cov.get("cycle_counts_compared", 0) + 1
    if r["nt"]:
        run.nt(r["nt"])
        mn = r["nt"].split(" ")[0]
        run.cov.setdefault("compared_per_operation", {})
        run.cov["compared_per_operation"][mn] = run.cov["compared_per_operation"].get(mn, 0) + 1
    for key, desc in r["viol"]:
        run.violation(key, r["case"], desc)
    if not r["viol"] and len(run.samples) < 6 and run.rng.random() < 0.001:
        run.sample({"case": describe(r["case"]), "result": "agrees with the reference"})


def replay_keys(run, cases):
    out = []
    for c in cases:
        keys = set()
        for r in evaluate([c]):
            if "_crash" in r:
                keys.add(crash_key(r))
            elif "viol" in r:
                keys.update(k for k, _ in r["viol"])
        out.append(keys)
    return out


def main(run):
    run.build("san")
    cases = generate(run)
    os.makedirs(os.path.join(core.VERIF, ".work", "tmp"), exist_ok=True)
    nrun = 150 if run.tier == "quick" else 3000
    cases += [gen_routine(run.rng, i) for i in range(nrun)]
    for r in evaluate(cases):
        consume(run, r)
    run.exhaustive = False
    run.cov["first_words"] = len({c["op"] for c in cases if "op" in c})
    run.assumptions = [
        "reference executor = my reading of SLAU049/SLAU144 chapter 3; masked (not judged): V after DADD, DADD on non-BCD "
        "operands, .b on SWPB/SXT/CALL, RETI with operand bits, results written to r3, r3 as destination, PC as register-mode "
        "source followed by extension words, @PC, push/call with SP or PC operands, call through the constant generator, "
        "format-II RRC/RRA/SWPB/SXT on constants/PC/SP/SR, arithmetic into PC, read-modify-write on SR other than word "
        "BIC/BIS/MOV, byte operations on SP, odd values into PC/SP, word accesses at odd addresses, @Rn+ whose register is also "
        "the destination, the high byte written by push.b, SR bits 9-15 when SR is written, undefined opcodes",
        "cycle counts are judged only for table entries equal in every guide revision: jumps (2), RETI (5), RRC/RRA/SWPB/SXT, and "
        "format I into a register (not PC) or into memory (not MOV/BIT/CMP); constant-generator sources count as register mode",
        "byte @Rn/@Rn+ sources (ram_read8(reg[ea]) indexes the register file with an address: sanitizer abort or arbitrary value) are "
        "excluded from the domain except a small sample kept as one known finding",
        "memory outside 0x0180-0x047f and 0x0fe0-0x103f reads as zero; one step from reset state plus the prepared registers",
    ]
    run.require(">= 20000 single steps compared with the reference", run.cov.get("compared", 0) >= 20000)
    run.require(">= 10000 cycle counts compared", run.cov.get("cycle_counts_compared", 0) >= 10000)
    run.require(">= 100 generated routines run by naken_util -run and compared", run.cov.get("run_compared", 0) >= 100)
    run.require("break_io exit status observed", any(k.endswith(":exit") for k in run.cov.get("run_classes", {})))
    run.require(">= 40 (operation, size) classes of the 27 core instructions compared", len(run.cov.get("compared_per_operation", {})) >= 40)
    return run.finish(lambda cs: replay_keys(run, cs))


def replay_cli(doc, seed):
    run = core.Run("C14", "quick", seed, RULE)
    run.build("san")
    case = doc.get("case", doc)
    keys = replay_keys(run, [case])[0]
    if keys:
        print("VIOLATION property=C14 replay=- keys=%s" % sorted(keys))
        return 1
    print("replay: no violation")
    return 0
