"""C06 - operand values are encoded exactly or rejected, never silently truncated.

Pure injectivity (pigeonhole) monitor: for one instruction form at one address
every accepted operand value must give a distinct encoding unless two values are
the signed/unsigned spellings of one field value.  A value that does not fit
but is accepted collides with the in-range value it wraps to, and the probe set
contains that value.
"""
import random
import re
import zlib

from .. import core, driver, rt
from ..gen import corpus

RULE = ("every instruction form with a numeric operand from tests/comparison/*.txt plus, for all 68 CPUs, one representative per (mnemonic, operand shape) that the real disassembler renders in the 16-bit sweep and the assembler accepts x a probe set of ~330 values "
        "(0..9, +-2^k, +-2^k+-1 for k<=31, and address-relative distances +-2^k, +-2^k+-1/2/4 around the load address) "
        "assembled by the real assembler at 0x1000; accepted values are grouped by emitted bytes; quick and thorough both "
        "take all forms (a reduced probe set would change which colliding pair names a finding). distinct_nontrivial = forms with >= 2 accepted and >= 1 rejected probe "
        "(decisive forms).")

A = 0x1000


def probe_values():
    vs = set(range(0, 10))
    for k in range(1, 32):
        for d in (-2, -1, 0, 1, 2):
            vs.add((1 << k) + d)
            vs.add(-(1 << k) + d)
    vs.add(0xffffffff)
    vs.add(0xfffffffe)
    for k in range(1, 17):
        for d in (-4, -2, -1, 0, 1, 2, 4):
            vs.add(A + (1 << k) + d)
            if A - (1 << k) + d >= 0:
                vs.add(A - (1 << k) + d)
    vs = {v for v in vs if -(1 << 31) <= v < (1 << 32)}
    return sorted(vs)


PROBES = probe_values()


def spelling_pair(a, b):
    hi, lo = max(a, b), min(a, b)
    if lo >= 0:
        return False
    d = hi - lo
    if d & (d - 1):
        return False
    w = d.bit_length() - 1
    return (1 << (w - 1)) <= hi < (1 << w) and -(1 << (w - 1)) <= lo


def fid(cpu, text, k):
    return "%08x" % zlib.crc32(("%s|%s|%d" % (cpu, text, k)).encode())


def work(item):
    cpu, bpa, forms = item
    vd = core.get_vdrv(20)
    vd.set_timeout(3)
    out = {"cpu": cpu, "forms": [], "asm": 0}
    hangs = 0
    for form in forms:
        text, k = form[0], form[1]
        probes = form[2] if len(form) > 2 and form[2] else PROBES
        lits = corpus.literals(text)
        if k >= len(lits):
            continue
        m = lits[k]
        groups = {}
        rejected = 0
        crashes = []
        for v in probes:
            t = corpus.subst_literal(text, m, v)
            if hangs >= 4:
                break
            try:
                r = rt.asm_text(vd, cpu, A, t, bpa)
                out["asm"] += 1
            except driver.Died as e:
                ci = core.crash_info(e)
                if ci["kind"] == "hang":
                    hangs += 1
                if ci["kind"] not in ("inconclusive", "lost"):
                    crashes.append((v, ci["sig"]))
                continue
            if not r["ok"] or not r["bytes"]:
                rejected += 1
                continue
            groups.setdefault(r["bytes"], []).append(v)
        coll = []
        for b, vs in groups.items():
            # operand expressions are 32-bit: 0xffffffff and -1 are one value
            sv = sorted({v - (1 << 32) if v >= (1 << 31) else v for v in vs})
            if len(sv) < 2:
                continue
            neg = [v for v in sv if v < 0]
            pos = [v for v in sv if v >= 0]
            pair = None
            if len(neg) > 1:
                pair = (neg[0], neg[1])
            elif len(pos) > 1:
                pair = (pos[0], pos[1])
            elif not spelling_pair(pos[0], neg[0]):
                pair = (neg[0], pos[0])
            if pair:
                d = abs(pair[0] - pair[1])
                cls = "mod2^%d" % (d.bit_length() - 1) if d & (d - 1) == 0 else "other"
                coll.append((cls, pair[0], pair[1], b.hex(), len(sv)))
        out["forms"].append({"text": text, "k": k, "accepted": sum(len(v) for v in groups.values()), "rejected": rejected,
                             "coll": coll, "crashes": crashes[:3]})
    return out


HARVEST_TAILS = [bytes(14), bytes((i * 73 + 41) & 0xff for i in range(14))]
HARVEST_CAP = 600
HARVEST_PER_MNEMONIC = 24
EXTRA_ANNOT = re.compile(r"\s*\((?:offset|address)\s*[:=][^)]*\)")


def harvest(item):
    """Forms from the binary side (DESIGN.md section 2, corpus source (b)): every (mnemonic, operand shape) the real
    disassembler renders for the 65536 leading patterns whose rendering has a numeric literal and is accepted by the
    real assembler at A - one representative each, skipping shapes the comparison file already provides."""
    cpu, bpa, have = item
    have = set(have)
    vd = core.get_vdrv(20)
    vd.set_timeout(3)
    out = {"cpu": cpu, "harvest": []}
    rows = []
    for tail in HARVEST_TAILS:      # zeros hide zero displacements/immediates (`ld (ix),0x00`), so also a non-zero filling
        try:
            rows += vd.sweep(cpu, A, 0, 65536, tail, 1, 0, 0)["rows"]
        except driver.Died:
            pass
    seen = set()
    per_mn = {}
    tried = 0
    for n, t in rows:
        if n <= 0 or rt.is_unknown(t):
            continue
        t = EXTRA_ANNOT.sub("", rt.strip_annotations(t)).rstrip()
        lits = corpus.literals(t)
        if not lits:
            continue
        key = (corpus.mnemonic(t), corpus.shape(t))
        if key in have:
            continue
        # one representative per operand shape with register numbers erased (r4/r5/... do not change the field)
        key = (key[0], corpus.REG_RE.sub("R", key[1]))
        if key in seen:
            continue
        seen.add(key)
        if per_mn.get(key[0], 0) >= HARVEST_PER_MNEMONIC:
            continue
        tried += 1
        if tried > 4 * HARVEST_CAP:
            break
        try:
            a = rt.asm_text(vd, cpu, A, t, bpa)
        except driver.Died:
            continue
        if not a["ok"] or not a["bytes"]:
            continue
        out["harvest"].append(t)
        per_mn[key[0]] = per_mn.get(key[0], 0) + 1
        if len(out["harvest"]) >= HARVEST_CAP:
            break
    return out


def gen_items(run, cpuinfo):
    C = corpus.load()
    have = {cpu: sorted({(corpus.mnemonic(ln), corpus.shape(ln)) for ln in C.get(cpu, [])}) for cpu in cpuinfo}
    harvested = {}
    hitems = [(cpu, cpuinfo[cpu]["bpa"], have[cpu]) for cpu in sorted(cpuinfo) if cpuinfo[cpu]["dis"]]
    for r in core.pmap(harvest, hitems, chunk=1):
        if "harvest" in r:
            harvested[r["cpu"]] = r["harvest"]
    run.cov["forms_from_disassembler_sweep"] = {c: len(v) for c, v in sorted(harvested.items()) if v}
    items = []
    for cpu in sorted(cpuinfo):
        forms = []
        seen = set()
        for ln in C.get(cpu, []) + harvested.get(cpu, []):
            for k, m in enumerate(corpus.literals(ln)):
                # one form per (shape, literal index): different register choices do not change the field
                key = (corpus.mnemonic(ln), corpus.shape(ln), k)
                if key in seen:
                    continue
                seen.add(key)
                forms.append((ln, k))
        # the whole form set costs about a minute on 16 cores, so the quick tier covers it too: a single widened
        # range check anywhere in the corpus is inside the quick domain
        for i in range(0, len(forms), 4):
            items.append((cpu, cpuinfo[cpu]["bpa"], forms[i:i + 4]))
    return items


def consume(run, r, stats):
    cpu = r["cpu"]
    run.count(r["asm"])
    for f in r["forms"]:
        stats["forms"] = stats.get("forms", 0) + 1
        decisive = f["accepted"] >= 2 and f["rejected"] >= 1
        if decisive:
            run.nt((cpu, f["text"], f["k"]))
        else:
            stats["non_decisive_forms"] = stats.get("non_decisive_forms", 0) + 1
        if len(run.samples) < 5 and decisive and not f["coll"]:
            run.sample({"cpu": cpu, "form": f["text"], "operand_index": f["k"], "accepted": f["accepted"], "rejected": f["rejected"]})
        mn = corpus.mnemonic(f["text"])
        for cls, a, b, hx, n in f["coll"]:
            key = "%s/%s/op%d/%s" % (cpu, mn, f["k"], cls)
            run.violation(key, {"cpu": cpu, "text": f["text"], "k": f["k"]},
                          "%s: `%s` operand %d: values %d and %d are both accepted and both encode as %s (%d values share it)" %
                          (cpu, f["text"], f["k"], a, b, hx, n), instance=fid(cpu, f["text"], f["k"]))
        for v, sig in f["crashes"]:
            key = "%s/%s/op%d/%s" % (cpu, mn, f["k"], sig)
            run.violation(key, {"cpu": cpu, "text": f["text"], "k": f["k"]},
                          "%s: `%s` operand %d = %d: %s" % (cpu, f["text"], f["k"], v, sig), instance=fid(cpu, f["text"], f["k"]))


def main(run):
    run.build("san")
    vd = driver.Vdrv(core.ARTS["san"]["vdrv"])
    cpuinfo = {c["name"]: c for c in vd.cpus()}
    vd.close()
    stats = {}
    for r in core.pmap(work, gen_items(run, cpuinfo), chunk=1):
        if run.handle_common(r):
            continue
        consume(run, r, stats)
    run.cov.update(stats)
    run.cov["probe_values_per_form"] = len(PROBES)
    run.assumptions = ["values outside [-2^31, 2^32) are not probed here: the global 64->32-bit narrowing of operand "
                       "expressions is one separate finding (see DESIGN.md, C06)",
                       "two values are one field value's signed/unsigned spellings iff they differ by 2^w with the larger in "
                       "[2^(w-1), 2^w) and the smaller in [-2^(w-1), 0)"]
    run.require(">= 100 decisive forms", len(run.nontrivial) >= 100)
    return run.finish(lambda cs: replay_keys(run, cs))


def _replay_one(item):
    c, bpa = item
    tmp = core.Run("C06", "quick", 1, RULE)
    # a catalogued witness names the colliding pair: re-assemble just those values (plus neighbours)
    r = work((c["cpu"], bpa, [(c["text"], c["k"], c.get("pair"))]))
    consume(tmp, r, {})
    return {"keys": sorted(tmp.viol.keys()), "id": c.get("_i")}


def replay_keys(run, cases):
    vd = driver.Vdrv(core.ARTS["san"]["vdrv"])
    cpuinfo = {c["name"]: c for c in vd.cpus()}
    vd.close()
    out = [set() for _ in cases]
    items = []
    for i, c in enumerate(cases):
        c = dict(c)
        c["_i"] = i
        items.append((c, cpuinfo[c["cpu"]]["bpa"]))
    for r in core.pmap(_replay_one, items, chunk=2):
        if "keys" in r:
            out[r["id"]] = set(r["keys"])
    return out


def replay_cli(doc, seed):
    run = core.Run("C06", "quick", seed, RULE)
    run.build("san")
    keys = replay_keys(run, [doc.get("case", doc)])[0]
    if keys:
        print("VIOLATION property=C06 replay=- keys=%s" % sorted(keys))
        return 1
    print("replay: no violation")
    return 0
