"""C06 - operand values are encoded exactly or rejected, never silently truncated.

Pure injectivity (pigeonhole) monitor: for one instruction form at one address
every accepted operand value must give a distinct encoding unless two values are
the signed/unsigned spellings of one field value.  A value that does not fit
but is accepted collides with the in-range value it wraps to, and the probe set
contains that value.
"""
import random
import zlib

from .. import core, driver, rt
from ..gen import corpus

RULE = ("every corpus instruction form with a numeric operand (tests/comparison/*.txt) x a probe set of ~330 values "
        "(0..9, +-2^k, +-2^k+-1 for k<=31, and address-relative distances +-2^k, +-2^k+-1/2/4 around the load address) "
        "assembled by the real assembler at 0x1000; accepted values are grouped by emitted bytes; quick takes a seeded "
        "sample of the forms, thorough all. distinct_nontrivial = forms with >= 2 accepted and >= 1 rejected probe "
        "(decisive forms).")

A = 0x1000


def probe_values():
    vs = set(range(0, 10))
    for k in range(1, 32):
        for d in (-2, -1, 0, 1, 2):
            vs.add((1 << k) + d)
            vs.add(-(1 << k) + d)
    vs.add(0xffffffff)
    vs.add(0xfffffffe)
    for k in range(1, 17):
        for d in (-4, -2, -1, 0, 1, 2, 4):
            vs.add(A + (1 << k) + d)
            if A - (1 << k) + d >= 0:
                vs.add(A - (1 << k) + d)
    vs = {v for v in vs if -(1 << 31) <= v < (1 << 32)}
    return sorted(vs)


PROBES = probe_values()


def spelling_pair(a, b):
    hi, lo = max(a, b), min(a, b)
    if lo >= 0:
        return False
    d = hi - lo
    if d & (d - 1):
        return False
    w = d.bit_length() - 1
    return (1 << (w - 1)) <= hi < (1 << w) and -(1 << (w - 1)) <= lo


def fid(cpu, text, k):
    return "%08x" % zlib.crc32(("%s|%s|%d" % (cpu, text, k)).encode())


def work(item):
    cpu, bpa, forms = item
    vd = core.get_vdrv(20)
    vd.set_timeout(3)
    out = {"cpu": cpu, "forms": [], "asm": 0}
    hangs = 0
    for form in forms:
        text, k = form[0], form[1]
        probes = form[2] if len(form) > 2 and form[2] else PROBES
        lits = corpus.literals(text)
        if k >= len(lits):
            continue
        m = lits[k]
        groups = {}
        rejected = 0
        crashes = []
        for v in probes:
            t = corpus.subst_literal(text, m, v)
            if hangs >= 4:
                break
            try:
                r = rt.asm_text(vd, cpu, A, t, bpa)
                out["asm"] += 1
            except driver.Died as e:
                ci = core.crash_info(e)
                if ci["kind"] == "hang":
                    hangs += 1
                if ci["kind"] not in ("inconclusive", "lost"):
                    crashes.append((v, ci["sig"]))
                continue
            if not r["ok"] or not r["bytes"]:
                rejected += 1
                continue
            groups.setdefault(r["bytes"], []).append(v)
        coll = []
        for b, vs in groups.items():
            # operand expressions are 32-bit: 0xffffffff and -1 are one value
            sv = sorted({v - (1 << 32) if v >= (1 << 31) else v for v in vs})
            if len(sv) < 2:
                continue
            neg = [v for v in sv if v < 0]
            pos = [v for v in sv if v >= 0]
            pair = None
            if len(neg) > 1:
                pair = (neg[0], neg[1])
            elif len(pos) > 1:
                pair = (pos[0], pos[1])
            elif not spelling_pair(pos[0], neg[0]):
                pair = (neg[0], pos[0])
            if pair:
                d = abs(pair[0] - pair[1])
                cls = "mod2^%d" % (d.bit_length() - 1) if d & (d - 1) == 0 else "other"
                coll.append((cls, pair[0], pair[1], b.hex(), len(sv)))
        out["forms"].append({"text": text, "k": k, "accepted": sum(len(v) for v in groups.values()), "rejected": rejected,
                             "coll": coll, "crashes": crashes[:3]})
    return out


def gen_items(run, cpuinfo):
    C = corpus.load()
    quick = run.tier == "quick"
    items = []
    for cpu in sorted(C):
        if cpu not in cpuinfo:
            continue
        forms = []
        seen = set()
        for ln in C[cpu]:
            for k, m in enumerate(corpus.literals(ln)):
                # one form per (shape, literal index): different register choices do not change the field
                key = (corpus.mnemonic(ln), corpus.shape(ln), k)
                if key in seen:
                    continue
                seen.add(key)
                forms.append((ln, k))
        if quick:
            rng = random.Random(run.seed * 104729 + zlib.crc32(cpu.encode()))
            n = max(4, len(forms) // 4)
            forms = rng.sample(forms, min(n, len(forms)))
        for i in range(0, len(forms), 4):
            items.append((cpu, cpuinfo[cpu]["bpa"], forms[i:i + 4]))
    return items


def consume(run, r, stats):
    cpu = r["cpu"]
    run.count(r["asm"])
    for f in r["forms"]:
        stats["forms"] = stats.get("forms", 0) + 1
        decisive = f["accepted"] >= 2 and f["rejected"] >= 1
        if decisive:
            run.nt((cpu, f["text"], f["k"]))
        else:
            stats["non_decisive_forms"] = stats.get("non_decisive_forms", 0) + 1
        if len(run.samples) < 5 and decisive and not f["coll"]:
            run.sample({"cpu": cpu, "form": f["text"], "operand_index": f["k"], "accepted": f["accepted"], "rejected": f["rejected"]})
        mn = corpus.mnemonic(f["text"])
        for cls, a, b, hx, n in f["coll"]:
            key = "%s/%s/op%d/%s" % (cpu, mn, f["k"], cls)
            run.violation(key, {"cpu": cpu, "text": f["text"], "k": f["k"]},
                          "%s: `%s` operand %d: values %d and %d are both accepted and both encode as %s (%d values share it)" %
                          (cpu, f["text"], f["k"], a, b, hx, n), instance=fid(cpu, f["text"], f["k"]))
        for v, sig in f["crashes"]:
            key = "%s/%s/op%d/%s" % (cpu, mn, f["k"], sig)
            run.violation(key, {"cpu": cpu, "text": f["text"], "k": f["k"]},
                          "%s: `%s` operand %d = %d: %s" % (cpu, f["text"], f["k"], v, sig), instance=fid(cpu, f["text"], f["k"]))


def main(run):
    run.build("san")
    vd = driver.Vdrv(core.ARTS["san"]["vdrv"])
    cpuinfo = {c["name"]: c for c in vd.cpus()}
    vd.close()
    stats = {}
    for r in core.pmap(work, gen_items(run, cpuinfo), chunk=1):
        if run.handle_common(r):
            continue
        consume(run, r, stats)
    run.cov.update(stats)
    run.cov["probe_values_per_form"] = len(PROBES)
    run.assumptions = ["values outside [-2^31, 2^32) are not probed here: the global 64->32-bit narrowing of operand "
                       "expressions is one separate finding (see DESIGN.md, C06)",
                       "two values are one field value's signed/unsigned spellings iff they differ by 2^w with the larger in "
                       "[2^(w-1), 2^w) and the smaller in [-2^(w-1), 0)"]
    run.require(">= 100 decisive forms", len(run.nontrivial) >= 100)
    return run.finish(lambda cs: replay_keys(run, cs))


def _replay_one(item):
    c, bpa = item
    tmp = core.Run("C06", "quick", 1, RULE)
    # a catalogued witness names the colliding pair: re-assemble just those values (plus neighbours)
    r = work((c["cpu"], bpa, [(c["text"], c["k"], c.get("pair"))]))
    consume(tmp, r, {})
    return {"keys": sorted(tmp.viol.keys()), "id": c.get("_i")}


def replay_keys(run, cases):
    vd = driver.Vdrv(core.ARTS["san"]["vdrv"])
    cpuinfo = {c["name"]: c for c in vd.cpus()}
    vd.close()
    out = [set() for _ in cases]
    items = []
    for i, c in enumerate(cases):
        c = dict(c)
        c["_i"] = i
        items.append((c, cpuinfo[c["cpu"]]["bpa"]))
    for r in core.pmap(_replay_one, items, chunk=2):
        if "keys" in r:
            out[r["id"]] = set(r["keys"])
    return out


def replay_cli(doc, seed):
    run = core.Run("C06", "quick", seed, RULE)
    run.build("san")
    keys = replay_keys(run, [doc.get("case", doc)])[0]
    if keys:
        print("VIOLATION property=C06 replay=- keys=%s" % sorted(keys))
        return 1
    print("replay: no violation")
    return 0
