"""C13 - assembly is a deterministic function of the source alone.

Monitor: differential runs of the real naken_asm CLI (sanitizer build) on one
source under configurations that must not matter (repetition, reporting
options, output name/directory, output type, ASan malloc fill pattern), plus
the in-process driver assembling the same source after unrelated assemblies
of other CPUs in the same process.  All images must be identical.
"""
import hashlib
import os
import re
import shutil
import tempfile

from .. import core, proc
from ..fmt import decode
from ..gen import corpus
from . import c12
from .c03 import compare

RULE = ("programs: single corpus instructions (all corpus CPUs) and multi-statement programs (instructions + data + labels, with "
        "macro/include/repeat/conditional shapes) x configurations {repeat, -l, -q, -dump_symbols, -dump_macros, all four, -o in a "
        "sub-directory, -o other name, -type srec, -type bin, -type elf, ASan malloc_fill_byte 0x00, 0xA5, in-process after 0..3 "
        "assemblies of other CPUs, in-process twice} each compared with a fresh `-type hex` CLI run. distinct_nontrivial = distinct "
        "(program, configuration) comparisons with a non-empty image.")

TMP = os.path.join(core.VERIF, ".work", "tmp")
ENV = proc.base_env()
FILL = {
    "fill00": proc.base_env({"ASAN_OPTIONS": proc.ASAN_ENV + ":malloc_fill_byte=0:max_malloc_fill_size=1048576"}),
    "fillA5": proc.base_env({"ASAN_OPTIONS": proc.ASAN_ENV + ":malloc_fill_byte=165:max_malloc_fill_size=1048576"}),
}
# name -> (extra argv, output path, how to compare)
CONFIGS = [
    ("repeat", [], "out.hex", "bytes"),
    ("-l", ["-l"], "out.hex", "bytes"),
    ("-q", ["-q"], "out.hex", "bytes"),
    ("-dump_symbols", ["-dump_symbols"], "out.hex", "bytes"),
    ("-dump_macros", ["-dump_macros"], "out.hex", "bytes"),
    ("all-reporting", ["-l", "-q", "-dump_symbols", "-dump_macros"], "out.hex", "bytes"),
    ("o-subdir", [], "sub/dir/renamed_output.hex", "bytes"),
    ("o-name", [], "x", "bytes"),
    ("fill00", [], "out.hex", "bytes"),
    ("fillA5", [], "out.hex", "bytes"),
    ("type-srec", [], "out.srec", "srec"),
    ("type-bin", [], "out.bin", "bin"),
    ("type-elf", [], "out.elf", "elf"),
]


def cli(exe, d, typ, out, extra, env):
    p = os.path.join(d, out)
    if os.path.exists(p):
        os.unlink(p)
    o = proc.run([exe] + extra + ["-type", typ, "-o", out, "p.asm"], cwd=d, cpu_s=10, fsize_mb=64, env=env)
    data = None
    if os.path.exists(p):
        data = open(p, "rb").read()
    return o, data


def fail_sig(o):
    if o.san:
        return o.san["sig"]
    if o.timed_out:
        return "hang"
    if o.signal:
        return "signal%d" % o.signal
    return "exit%s" % o.status


def work(item):
    exe, cpu, files, history, pid, kind = item
    os.makedirs(TMP, exist_ok=True)
    d = tempfile.mkdtemp(prefix="c13_", dir=TMP)
    res = {"cpu": cpu, "pid": pid, "kind": kind, "valid": False, "done": [], "viol": [], "inconc": [], "nbytes": 0, "skipped": [],
           "case": {"cpu": cpu, "files": files, "history": history, "kind": kind}}
    try:
        for fn, txt in files.items():
            core.write_tmp(d, fn, txt)
        os.makedirs(os.path.join(d, "sub", "dir"))
        o, base = cli(exe, d, "hex", "out.hex", [], ENV)
        if o.wall_killed:
            res["inconc"].append("wall-watchdog/base")
            return res
        if o.status != 0 or o.san or o.signal or base is None:
            return res      # not an assemblable program (C12/C10 look at failures)
        want, meta, errs = decode.ihex(base)
        if errs and want:
            # the plain hex file itself is not well formed (C03's subject) - but if it also carries a different image
            # than -type bin of the same source, the image depends on the output type (C13)
            o2, data2 = cli(exe, d, "bin", "o.bin", [], ENV)
            if o2.status == 0 and not o2.san and not o2.signal and data2 is not None:
                lo, hi = min(want), max(want)
                got, m2, e2 = decode.rawbin(data2, lo)
                v = compare("range", want, got, lo, hi)
                if v or len(data2) != hi - lo + 1:
                    res["viol"].append(("image-differs/type-bin/%s" % cpu, "-type bin image vs -type hex image (hex file malformed: %s): %s"
                                        % (errs[0], v[0][1] if v else "bin spans %d bytes, hex %d" % (len(data2), hi - lo + 1))))
                else:
                    res["skipped"].append("hex-file-malformed")
                res["valid"] = True
                res["nbytes"] = len(want)
            return res
        if errs or not want:
            return res
        res["valid"] = True
        res["nbytes"] = len(want)
        lo, hi = min(want), max(want)
        for name, extra, out, how in CONFIGS:
            typ = {"bytes": "hex"}.get(how, how)
            o, data = cli(exe, d, typ, out, extra, FILL.get(name, ENV))
            if o.wall_killed:
                res["inconc"].append("wall-watchdog/" + name)
                continue
            if o.san and o.san["kind"] == "ubsan:vla-bound" and "write_elf.cpp" in o.san["sig"]:
                res["skipped"].append("elf-writer-vla")      # C03's listed finding (nothing exported): no ELF to compare
                continue
            if o.status != 0 or o.san or o.signal or o.timed_out or data is None:
                res["viol"].append(("config-run-fails/%s/%s" % (name, fail_sig(o)),
                                    "plain run succeeds, run with %s fails: %s" % (name, fail_sig(o))))
                continue
            if how == "bytes":
                if data != base:
                    got = decode.ihex(data)[0]
                    diff = sorted(a for a in set(want) | set(got) if want.get(a) != got.get(a))
                    res["viol"].append(("image-differs/%s/%s" % (name, cpu),
                                        "hex file differs from the plain run's under %s (first differing address %s)"
                                        % (name, hex(diff[0]) if diff else "none: only record layout")))
                    continue
            else:
                if how == "bin":
                    got, m2, e2 = decode.rawbin(data, lo)
                    v = compare("range", want, got, lo, hi)
                elif how == "elf":
                    got, m2, e2 = decode.elf(data)
                    v = compare("range", want, got, lo, hi, 16)
                else:
                    got, m2, e2 = decode.srec(data)
                    v = compare("sparse", want, got, lo, hi)
                if e2:
                    res["skipped"].append("%s-file-malformed" % how)     # C03's subject (listed: ELF of 2-byte-address CPUs)
                    continue
                if v:
                    res["viol"].append(("image-differs/%s/%s" % (name, cpu), "-type %s image vs -type hex image: %s" % (how, v[0][1])))
                    continue
            res["done"].append(name)
        # in-process, after other assemblies in the same process
        vd = core.get_vdrv()
        for hsrc in history:
            vd.asm(hsrc)
        opts = "inc=" + d
        r1 = vd.asm(files["p.asm"], opts)
        r2 = vd.asm(files["p.asm"], opts)
        for name, r in (("inproc-history%d" % min(len(history), 3), r1), ("inproc-twice", r2)):
            if r["rc"] != 0 or r["exit"]:
                res["viol"].append(("config-run-fails/inproc/%s" % cpu, "CLI assembles the source, in-process assembly (%s) fails rc=%d"
                                    % (name, r["rc"])))
                continue
            img = r["img"]
            bad = [a for a in img if want.get(a) != img[a]]
            bad += [a for a in want if a not in img and want[a] != 0]
            if bad:
                a = min(bad)
                res["viol"].append(("image-differs/%s/%s" % (re.sub(r"\d+$", "", name), cpu),
                                    "in-process image (%s) differs from a fresh CLI run at 0x%x: %s vs %s (%d bytes differ)"
                                    % (name, a, img.get(a), want.get(a), len(bad))))
                continue
            res["done"].append(name)
        return res
    finally:
        shutil.rmtree(d, ignore_errors=True)


def scoped_program(cpu, rng):
    n = rng.randint(1, 4)
    src = [".%s" % cpu, ".org 0x%x" % rng.choice([0x100, 0x1000, 0x2000])]
    src += ["target:", ".export target", "  .dc16 0x1111", "other:", "  .dc16 0x0101"]
    for i in range(n):
        kind = rng.choice(["scope", "func"])
        if kind == "scope":
            src += [".scope", "  .dc16 other", "target:", "  .dc16 0x22%02x" % i, "  .dc16 target", "inner%d:" % i,
                    "  .dc16 inner%d, target, other" % i, ".ends"]
        else:
            src += [".func fn%d" % i, "  .dc16 target", "target%s:" % ("" if rng.random() < 0.5 else "_l"),
                    "  .dc16 0x33%02x" % i, "  .dc16 fn%d" % i, ".endf"]
        src += ["  .dc16 target, other"]
    src += ["last:", "  .dc16 target, last"]
    return "\n".join(src) + "\n"


def pagecross_program(cpu, rng):
    src = [".%s" % cpu, "start:", ".export start"]
    for base in rng.sample([0x10000, 0x20000, 0x30000], rng.randint(1, 2)):
        back = rng.choice([1, 3, 7, 9, 12, 15, 17, 28, 31, 33])
        n = back + rng.randint(1, 40)
        src.append(".org 0x%x" % (base - back))
        vals = [rng.getrandbits(8) for _ in range(n)]
        for j in range(0, n, 8):
            src.append("  .db " + ", ".join("0x%02x" % v for v in vals[j:j + 8]))
    return "\n".join(src) + "\n"


def gen_items(run):
    quick = run.tier == "quick"
    exe = core.ARTS["san"]["naken_asm"]
    corp = corpus.load()
    rng = run.rng
    cpus = [c for c in sorted(corp) if c not in c12.SKIP_CPUS]
    nsingle, nmulti = (240, 360) if quick else (2000, 2000)
    progs = []
    for i in range(nsingle):
        cpu = cpus[i % len(cpus)]
        src = corpus.wrap(cpu, 0, rng.choice(corp[cpu]))
        if "\nstart:\n" in src:
            src += ".export start\n"      # the ELF writer needs one exported symbol (C03 finding)
        progs.append((cpu, {"p.asm": src}, "single"))
    shapes = sorted(c12.SHAPES)
    multi_cpus = ["msp430", "z80", "68000", "avr8", "arm", "mips", "6502", "dspic", "riscv", "stm8", "thumb", "powerpc"]
    for i in range(nmulti):
        cpu = multi_cpus[i % len(multi_cpus)] if i % 3 else cpus[(i // 3) % len(cpus)]
        ins = c12.pick_instrs(rng, corp[cpu])
        if ins is None:
            continue
        shape = shapes[i % len(shapes)]
        progs.append((cpu, c12.build_files(cpu, ins, shape, rng.getrandbits(4)), "multi-" + shape))
    # two further program kinds (data-only, so they assemble on every CPU): scoped/shadowed labels referenced inside
    # and outside .scope/.func blocks (resolution depends on per-pass scope bookkeeping), and contiguous data runs that
    # cross a 64 KiB boundary at a non-16-aligned distance (record flushing in the hex/srec writers vs the bin image)
    nextra = 48 if quick else 300
    byte_cpus = ["msp430", "z80", "6502", "68000", "8051", "stm8", "6809", "arm", "mips", "riscv"]
    for i in range(nextra):
        cpu = byte_cpus[i % len(byte_cpus)]
        progs.append((cpu, {"p.asm": scoped_program(cpu, rng)}, "scoped"))
        progs.append((cpu, {"p.asm": pagecross_program(cpu, rng)}, "pagecross"))
    items = []
    for cpu, files, kind in progs:
        k = rng.randint(0, 3)
        hist = []
        for _ in range(k):
            oc, of, _k = rng.choice(progs)
            hist.append(of["p.asm"] if len(of) == 1 else corpus.wrap(oc, 0, rng.choice(corp[oc])))
        pid = hashlib.sha1(repr(sorted(files.items())).encode()).hexdigest()[:12]
        items.append((exe, cpu, files, hist, pid, kind))
    return items


def consume(run, r, stats):
    if "_crash" in r:
        # the in-process driver died: attribute to the program, keyed by the crash signature
        ci = r["_crash"]
        it = r["_item"]
        case = {"cpu": it[1], "files": it[2], "history": it[3], "kind": it[5]}
        if ci["kind"] == "inconclusive" or ci["kind"] == "lost":
            run.inconc(ci["sig"], case)
        else:
            run.count()
            run.violation("config-run-fails/inproc/" + ci["sig"], case, "in-process assembly of a source the CLI assembles dies: " + ci["sig"])
        return
    for w in r["inconc"]:
        run.inconc(w, r["case"])
    if not r["valid"]:
        stats["programs_not_assemblable"] = stats.get("programs_not_assemblable", 0) + 1
        return
    stats["programs"] = stats.get("programs", 0) + 1
    stats["image_bytes"] = stats.get("image_bytes", 0) + r["nbytes"]
    stats["cpus"].add(r["cpu"])
    stats.setdefault("kinds", {})
    stats["kinds"][r["kind"]] = stats["kinds"].get(r["kind"], 0) + 1
    for w in r["skipped"]:
        stats.setdefault("comparisons_skipped", {})
        stats["comparisons_skipped"][w] = stats["comparisons_skipped"].get(w, 0) + 1
    for name in r["done"]:
        run.count()
        run.nt((r["pid"], name))
        stats.setdefault("comparisons_equal", {})
        stats["comparisons_equal"][name] = stats["comparisons_equal"].get(name, 0) + 1
    for key, desc in r["viol"]:
        run.count()
        run.violation(key, r["case"], "%s (%s): %s" % (r["cpu"], r["kind"], desc))
    if r["kind"].startswith("multi") and r["done"]:
        run.sample({"cpu": r["cpu"], "kind": r["kind"], "image_bytes": r["nbytes"], "configurations_equal": r["done"],
                    "source": r["case"]["files"]["p.asm"]}, limit=3)


def main(run):
    run.build("san")
    stats = {"cpus": set()}
    items = gen_items(run)
    for r in core.pmap(work, items, chunk=4):
        if run.handle_common(r):
            continue
        consume(run, r, stats)
    stats["cpus"] = sorted(stats["cpus"])
    run.cov.update(stats)
    run.assumptions = [
        "images are compared, not listings or console output; same-type runs are compared as files (hex has no timestamp)",
        "bin/elf may carry zero bytes in never-written gaps (range formats); in-process images list written bytes only, so a byte "
        "present only in the hex file must be zero",
        "initialisation regime is varied with ASan malloc_fill_byte 0x00 vs 0xA5 (heap only); the init0/initP compiler builds of the "
        "design are not built by this check",
        "the interactive 'asm' command of naken_util is not driven; in-process history is exercised through the library driver",
        "-type elf comparisons are skipped (counted) when UBSan reports the ELF writer's zero-length VLA (program exports nothing) "
        "or the ELF file itself is malformed (2-byte-address CPUs) - both are C03's listed findings",
        "programs the plain CLI run rejects are dropped (counted)",
    ]
    eq = stats.get("comparisons_equal", {})
    run.require(">= 100 programs assembled", stats.get("programs", 0) >= 100)
    run.require("every configuration compared >= 50 times",
                all(eq.get(n, 0) >= 50 for n in [c[0] for c in CONFIGS] + ["inproc-twice"]))
    run.require(">= 20 CPUs", len(stats["cpus"]) >= 20)
    return run.finish(lambda cs: replay_keys(run, cs))


def replay_keys(run, cases):
    exe = core.ARTS["san"]["naken_asm"]
    out = []
    for c in cases:
        try:
            r = work((exe, c["cpu"], c["files"], c.get("history", []), "replay", c.get("kind", "?")))
            out.append(set(k for k, _ in r["viol"]))
        except Exception as e:       # driver died
            from .. import driver
            if isinstance(e, driver.Died):
                out.append({"config-run-fails/inproc/" + core.crash_info(e)["sig"]})
            else:
                raise
    return out


def replay_cli(doc, seed):
    run = core.Run("C13", "quick", seed, RULE)
    run.build("san")
    keys = replay_keys(run, [doc.get("case", doc)])[0]
    if keys:
        print("VIOLATION property=C13 replay=- keys=%s" % sorted(keys))
        return 1
    print("replay: no violation")
    return 0
