"""C18 - the listing file tells the truth about the output.

Monitor: generated programs per CPU are assembled by the real naken_asm CLI
with -l, once with -type hex and once with -type bin.  The listing is parsed
(vf/fmt/c18_lst.py) and every instruction line, continuation line, data-section
row, symbol-table row and the low/high summary are cross-checked against the
bytes the output file of the same run holds."""
import os
import random
import re
import shutil
import sys
import tempfile

from .. import core, proc
from ..fmt import decode
from ..fmt import c18_lst as lst
from ..gen import corpus

RULE = ("generated programs for every CPU with a comparison corpus (49): instructions drawn from tests/comparison incl. multi-word "
        "ones, data directives (.db/.dc16/.dc32/.ascii) between code with run lengths that are not multiples of 16, three .org "
        "segments, a macro with a parameter, an .include file, .repeat, labels, and for a few programs 800 labels; each assembled "
        "by the real CLI with -l -type hex and -l -type bin; every listing line compared with the output file of the same run. "
        "distinct_nontrivial = distinct (cpu, opcode-column family, construct) whose listing lines were all byte-compared, "
        "construct in {plain, multiword, macro, include, repeat, dump-row, dump-partial-row, symbols, summary}.")

TMP = os.path.join(core.VERIF, ".work", "tmp")

# cpu -> opcode-column renderings, learned from the unchanged tree (python3 -m vf.checks.c18 learn) and
# committed here: after a source change a line that matches none of its CPU's families no longer shows the
# bytes of the output file.
FAMILY = {
    "arc": ["w2le"], "avr8": ["w2le"], "msp430": ["w2le"], "msp430x": ["w2le"], "pdk13": ["w2le"], "pdk14": ["w2le"],
    "pdk15": ["w2le"], "pic14": ["w2le"], "pic18": ["w2le"], "sh4": ["w2le"], "thumb": ["w2le"], "unsp": ["w2le"],
    "arm": ["w4le"], "arm64": ["w4le"], "pic32": ["w4le"], "propeller": ["w4le"], "propeller2": ["w4le"], "ps2_ee": ["w4le"],
    "dspic": ["dspic24"], "epiphany": ["w4le", "w2le"], "riscv": ["w4le", "w2le"], "riscv64": ["w4le", "w2le"],
    "ps2_ee_vu1": ["vu"], "xtensa": ["w3le", "w2le"],
    # every other CPU (byte-wise columns and big-endian words): "bytes"
}
DEFAULT_FAMILY = ["bytes"]

# CPUs whose listing text is not literally the disassembler's text for the shown bytes (reason given)
TEXT_SKIP = {
    "ps2_ee_vu1": "one line carries two disassemblies (upper and lower instruction); the disassembler entry point returns one text",
}

S29 = "the listing shows fewer opcode bytes than the instruction it disassembles on that line occupies in the output"


def fam_of(cpu):
    return FAMILY.get(cpu, DEFAULT_FAMILY)


# ------------------------------------------------------------------ generation

def data_block(rng, nbytes, marker):
    """source lines + nothing else; nbytes multiple of 8; first 8 bytes = marker via .db"""
    lines = ["  .db " + ", ".join("0x%02x" % b for b in marker)]
    left = nbytes - 8
    while left > 0:
        kind = rng.choice(["db", "dc16", "dc32", "ascii"])
        if kind == "db":
            lines.append("  .db " + ", ".join(str(rng.randrange(256)) for _ in range(8)))
        elif kind == "dc16":
            lines.append("  .dc16 " + ", ".join("0x%04x" % rng.randrange(65536) for _ in range(4)))
        elif kind == "dc32":
            lines.append("  .dc32 " + ", ".join("0x%08x" % rng.randrange(1 << 32) for _ in range(2)))
        else:
            lines.append('  .ascii "%s"' % "".join(rng.choice("abcdefXYZ 0123+-") for _ in range(8)))
        left -= 8
    return lines


def usable(line):
    if re.match(r"^\s*[A-Za-z_][A-Za-z_0-9]*:", line):
        return False
    return True


def gen_case(rng, cpu, bpa, pool, many, idx):
    pick = lambda n: [rng.choice(pool) for _ in range(n)]
    src = [".%s" % cpu]
    if cpu == "epiphany":
        src.append('.include "epiphany/epiphany.inc"')
    if cpu == "8051":
        src.append('.include "8051/8051.inc"')
    syms = {}
    markers = {}
    base = rng.choice([0x0, 0x40, 0x100, 0x208, 0x400, 0x800])
    src.append(".macro mac1(a)")
    src += ["  " + x for x in pick(2)]
    src.append("  .db a, 0x11, 0x22, 0x33, 0x44, 0x55, 0x66, 0x77")
    src.append(".endm")
    pos = base

    def new_marker(name):
        m = [0xC0 | rng.randrange(16)] + [rng.randrange(256) for _ in range(7)]
        markers[name] = m
        return m

    inc = ["  " + x for x in pick(2)] + ["inc_data:"] + data_block(rng, 8, new_marker("inc_data"))
    for seg in range(3):
        src.append(".org 0x%x" % (pos // bpa))
        name = "seg%d" % seg
        src.append(name + ":")
        syms[name] = pos // bpa
        if seg == 1 and rng.random() < 0.6:
            nm = "blk%d_first" % seg
            src.append(nm + ":")
            src += data_block(rng, rng.choice([8, 24, 40, 16, 56]), new_marker(nm))
        src += ["  " + x for x in pick(rng.randint(3, 7))]
        if seg == 0:
            src.append("  mac1(%d)" % rng.randrange(256))
            src += ["  " + x for x in pick(2)]
            src.append('.include "c18inc.inc"')
        nm = "blk%d" % seg
        src.append(nm + ":")
        src += data_block(rng, rng.choice([8, 24, 40, 72, 16, 136]), new_marker(nm))
        src += ["  " + x for x in pick(rng.randint(2, 6))]
        if seg == 1:
            src.append(".repeat 3")
            src += ["  " + x for x in pick(1)]
            src.append(".endr")
        if seg == 2:
            nm = "blk%d_last" % seg
            src.append(nm + ":")
            src += data_block(rng, rng.choice([8, 24, 32, 48]), new_marker(nm))
            if many:
                for k in range(many):
                    nm = "L%04d" % k
                    src.append(nm + ":")
                    src.append("  .db 0xd7, 0x%02x, 0x%02x, 0x5a, %d, 0xa5, 0x3c, 0x7e" % (k & 255, k >> 8, idx & 255))
                    markers[nm] = [0xd7, k & 255, k >> 8, 0x5a, idx & 255, 0xa5, 0x3c, 0x7e]
            src.append("the_end:")
        pos += rng.choice([0x200, 0x400, 0x238, 0x610])
    return {"cpu": cpu, "bpa": bpa, "src": "\n".join(src) + "\n", "inc": "\n".join(inc) + "\n", "syms": syms,
            "markers": markers, "many": many}


# ------------------------------------------------------------------ evaluation

def assemble(exe, d, case, typ, out):
    core.write_tmp(d, "p.asm", case["src"])
    core.write_tmp(d, "c18inc.inc", case["inc"])
    for f in ("p.lst", out, out.rsplit(".", 1)[0] + ".lst"):
        try:
            os.unlink(os.path.join(d, f))
        except OSError:
            pass
    return proc.run([exe, "-l", "-type", typ, "-o", out, "p.asm"], cwd=d, cpu_s=20, fsize_mb=64)


def settle(exe, d, case):
    """remove source lines the assembler rejects (corpus lines out of their context) until the program assembles."""
    for _ in range(24):
        o = assemble(exe, d, case, "hex", "out.hex")
        if o.san or o.signal or o.timed_out or o.wall_killed:
            return o
        if o.status == 0 and "out.hex" in o.files:
            return o
        m = re.search(r"(?:Error|error)[^\n]* at (\S+?):(\d+)", o.stdout)
        if not m:
            return o
        fn, n = m.group(1), int(m.group(2))
        key = "inc" if fn.endswith("c18inc.inc") else "src" if fn.endswith("p.asm") else None
        if key is None:
            return o
        ls = case[key].split("\n")
        if not (1 <= n <= len(ls)):
            return o
        bad = ls[n - 1]

        def is_ins(x):
            return x.startswith("  ") and not x.strip().startswith(".") and not x.strip().startswith("mac1(")
        victim = None
        if is_ins(bad):
            victim = (key, n - 1)
        elif bad.strip() == ".endr" and n >= 2 and is_ins(ls[n - 2]):
            victim = (key, n - 2)
        elif bad.strip().startswith("mac1("):
            sl = case["src"].split("\n")
            a, b = sl.index(".macro mac1(a)"), sl.index(".endm")
            cand = [i for i in range(a + 1, b) if is_ins(sl[i])]
            victim = ("src", cand[0]) if cand else ("src", n - 1)
        elif bad.strip().startswith(".include") and "c18inc" in bad:
            il = case["inc"].split("\n")
            cand = [i for i in range(len(il)) if is_ins(il[i])]
            if cand:
                victim = ("inc", cand[0])
        if victim is None:
            return o
        ls = case[victim[0]].split("\n")
        del ls[victim[1]]
        case[victim[0]] = "\n".join(ls)
        case.setdefault("dropped", 0)
        case["dropped"] += 1
    return o


def find_lst(d, out):
    for f in (out.rsplit(".", 1)[0] + ".lst", "p.lst"):
        p = os.path.join(d, f)
        if os.path.exists(p):
            return open(p, "rb").read().decode("latin-1")
    return None


def norm(s):
    return re.sub(r"\s+", "", s).lower()


def check_listing(case, text, img, vd, families=None, learn=None):
    """img: {byte address: value} of written bytes.  -> (violations [(key, desc)], stats dict)."""
    cpu, bpa = case["cpu"], case["bpa"]
    fams = families or fam_of(cpu)
    L = lst.parse(text)
    viol = []
    st = {"lines": 0, "cont_lines": 0, "multiword": 0, "text_checked": 0, "dump_rows": 0, "dump_partial": 0, "dump_bytes": 0,
          "instr_bytes": 0, "syms_checked": 0, "fam_used": {}}
    if not img:
        return [("harness/empty-image", "no bytes decoded")], st
    lo, hi = min(img), max(img)
    covered = set()
    ins = L["instr"]
    if not L["has_dump"]:
        viol.append(("listing/no-data-sections", "listing has no 'data sections:' part"))
    # merge 0xADDR: continuation lines (text is only hex) later, by address adjacency
    i = 0
    n_ins = len(ins)
    starts = sorted(set(e["addr"] * bpa for e in ins))
    import bisect
    prev = None     # (A, k, entry) of the previous real instruction line
    groups = []     # [A, k, text_rest, first_line_no]
    for e in ins:
        A = e["addr"] * bpa
        st["lines"] += 1
        if A not in img:
            viol.append(("%s/line-at-unwritten-address" % cpu, "listing line 0x%04x:%s but the output holds no byte there" % (e["addr"], e["text"][:40])))
            prev = None
            continue
        j = bisect.bisect_right(starts, A)
        nxt = starts[j] if j < len(starts) else hi + 1
        B = []
        a = A
        while a < nxt and a in img and len(B) < 64:
            B.append(img[a])
            a += 1
        B = bytes(B)
        ms = lst.match_prefix(e["text"], B, fams)
        if not ms:
            viol.append(("%s/line-bytes" % cpu, "0x%04x:%s does not start with a rendering of the output bytes %s at that address"
                         % (e["addr"], e["text"][:48].rstrip(), B[:8].hex())))
            for x in range(A, A + FAMILY_UNIT(fams)):
                covered.add(x)      # one key per root cause: these bytes are reported by the line-bytes key
            prev = None
            continue
        cands = []
        for fam, ntok, k in ms:
            rest = lst.rest_after(e["text"], ntok)
            # address-less continuation lines directly below
            k2 = k
            nc = 0
            for c in e["cont"]:
                m2 = lst.match_prefix(c, B[k2:], fams)
                m2 = [x for x in m2 if x[1] == len(c.split())]
                if not m2:
                    break
                k2 += m2[0][2]
                nc += 1
            cands.append((fam, k2, rest, nc))
        if learn is not None:
            for fam, k2, rest, nc in cands:
                learn[fam] = learn.get(fam, 0) + 1
        fam, k, rest, nc = cands[0]
        if not norm(rest) and prev is not None and prev[0] + prev[1] == A:
            # '0xADDR: 0xWORD' continuation of the previous instruction
            prev[1] += k
            st["cont_lines"] += 1
            for x in range(A, A + k):
                covered.add(x)
            continue
        st["cont_lines"] += nc
        g = [A, k, rest, e, cands, B]
        groups.append(g)
        prev = g
        for x in range(A, A + k):
            covered.add(x)
        st["fam_used"][fam] = st["fam_used"].get(fam, 0) + 1
    # disassembly text of exactly the bytes shown
    code_extent = {}
    for A, k, rest, e, cands, B in groups:
        st["instr_bytes"] += k
        if vd is None or cpu in TEXT_SKIP:
            continue
        ok = False
        r = None
        shown = norm(rest)
        tried = []
        extra = k - cands[0][1]       # bytes of merged '0xADDR: 0xWORD' continuation lines
        for fam, kk, rr, nc in cands:
            try:
                r = vd.dis(cpu, A, bytes(img.get(A + x, 0) for x in range(kk + extra)))
            except RuntimeError:
                r = None
            if r is None:
                break
            t = norm(r["text"])
            tried.append((kk, r["text"], r["n"]))
            if t and norm(rr).startswith(t):
                ok = True
                break
        if r is None:
            continue
        st["text_checked"] += 1
        if ok:
            continue
        # does the text belong to more bytes than shown?
        try:
            B = bytes(img.get(A + x, 0) for x in range(16))
            rf = vd.dis(cpu, A, B)
        except RuntimeError:
            rf = None
        if rf is not None and rf["n"] > k and norm(rf["text"]) and shown.startswith(norm(rf["text"])):
            viol.append(("%s/shows-fewer-bytes" % cpu, "0x%04x:%s shows %d byte(s) but the text is the disassembly of %d bytes (%s); %s"
                         % (e["addr"], e["text"][:50].rstrip(), k, rf["n"], B[:rf["n"]].hex(), S29)))
            code_extent[A] = rf["n"]
        else:
            viol.append(("%s/text" % cpu, "0x%04x:%s: text is not the disassembly of the %d bytes shown (%s -> '%s')"
                         % (e["addr"], e["text"][:50].rstrip(), k, bytes(img.get(A + x, 0) for x in range(k)).hex(), tried[0][1] if tried else "?")))
    for A, n in code_extent.items():
        for x in range(A, A + n):
            if x in img:
                covered.add(x)
    # data-section rows
    for addr, bs, ln in L["dump"]:
        A = addr * bpa
        st["dump_rows"] += 1
        if len(bs) < 16:
            st["dump_partial"] += 1
        for i2, b in enumerate(bs):
            a = A + i2
            if a not in img:
                viol.append(("dump/unwritten-address", "data-section row '%s' lists a byte at 0x%x where the output holds none" % (ln[:30], a)))
                break
            if img[a] != b:
                viol.append(("dump/wrong-byte", "data-section row '%s' shows 0x%02x at byte address 0x%x, the output holds 0x%02x" % (ln[:30], b, a, img[a])))
                break
            covered.add(a)
            st["dump_bytes"] += 1
    for ln in L["dump_bad"][:1]:
        viol.append(("dump/unparsable-row", "data-section line is not 'ADDR: bytes text': %r" % ln[:60]))
    missing = sorted(a for a in img if a not in covered)
    if missing:
        # instructions inside the .include file lie directly in front of its data marker (known by construction)
        flat0 = bytes(img.get(a, 0) for a in range(lo, hi + 1))
        p = flat0.find(bytes(case["markers"]["inc_data"])) if "inc_data" in case["markers"] else -1
        inc_miss = []
        if p >= 0:
            a = lo + p - 1
            ms = set(missing)
            while a in ms and lo + p - a <= 64:
                inc_miss.append(a)
                a -= 1
        if inc_miss:
            viol.append(("uncovered/include-body", "%d output byte(s) assembled from instructions inside the .include file (0x%x..0x%x) appear "
                         "in no instruction line and no data-section row" % (len(inc_miss), min(inc_miss), max(inc_miss))))
            missing = [a for a in missing if a not in set(inc_miss)]
    if missing and "seg1" in case["syms"] and "seg2" in case["syms"]:
        # segment 1 ends with the .repeat block (by construction): trailing unlisted bytes of that segment
        s1, s2 = case["syms"]["seg1"] * bpa, case["syms"]["seg2"] * bpa
        ms = set(missing)
        end = max([a for a in img if s1 <= a < s2] or [-1])
        tail = []
        a = end
        while a in ms and end - a < 16:
            tail.append(a)
            a -= 1
        if tail:
            viol.append(("uncovered/repeat-last-iteration", "%d output byte(s) at the end of the .repeat block (0x%x..0x%x) appear in no "
                         "instruction line: the last iteration is assembled but not listed" % (len(tail), min(tail), max(tail))))
            missing = [a for a in missing if a not in set(tail)]
    if missing:
        a0 = missing[0]
        viol.append(("uncovered/%s" % cpu,
                     "%d output byte(s) appear in no instruction line and no data-section row, first at byte address 0x%x (0x%02x)"
                     % (len(missing), a0, img[a0])))
    # symbols
    listed = {}
    for name, val in L["symbols"]:
        listed.setdefault(name, []).append(val)
    if L["total_symbols"] is not None and L["total_symbols"] != len(L["symbols"]):
        viol.append(("symtab/total", "'Total symbols: %d' but %d rows are listed" % (L["total_symbols"], len(L["symbols"]))))
    exp = dict(case["syms"])
    flat = bytes(img.get(a, 0) for a in range(lo, hi + 1))
    for name, m in case["markers"].items():
        mb = bytes(m)
        p = flat.find(mb)
        if p >= 0 and flat.find(mb, p + 1) < 0 and (lo + p) % bpa == 0:
            exp[name] = (lo + p) // bpa
    miss = [n for n in exp if n not in listed]
    for name in exp:
        if name in listed:
            st["syms_checked"] += 1
            if exp[name] not in listed[name]:
                viol.append(("symtab/value", "symbol %s listed as 0x%x, its address in the image is 0x%x" % (name, listed[name][0], exp[name])))
                break
    if miss:
        if len(exp) > 762:
            viol.append(("symtab/missing-beyond-762", "%d of %d defined labels are absent from the listing's symbol table (first %s)" % (len(miss), len(exp), sorted(miss)[0])))
        else:
            viol.append(("symtab/missing", "label %s is absent from the listing's symbol table" % sorted(miss)[0]))
    # summary
    if L["low"] is None or L["high"] is None:
        viol.append(("summary/absent", "no Low/High Address lines in the listing"))
    else:
        if L["low"] != lo // bpa:
            viol.append(("summary/low", "Low Address 0x%x, lowest output byte is at 0x%x (unit 0x%x)" % (L["low"], lo, lo // bpa)))
        if L["high"] != hi // bpa:
            viol.append(("summary/high", "High Address 0x%x, highest output byte is at 0x%x (unit 0x%x)" % (L["high"], hi, hi // bpa)))
    st["multiword"] = sum(1 for g in groups if g[1] > FAMILY_UNIT(fams))
    return viol, st


def FAMILY_UNIT(fams):
    return min(lst.FAMILIES[f][0] for f in fams)


def classify(case, img, a, cpu):
    """is byte address a inside a generated data block (known by its marker) -> 'data', else '<cpu>/code'."""
    lo, hi = min(img), max(img)
    flat = bytes(img.get(x, 0) for x in range(lo, hi + 1))
    for name, m in case["markers"].items():
        p = flat.find(bytes(m))
        if p >= 0 and lo + p <= a < lo + p + 8:
            return "data"
    # data blocks are longer than their marker: walk back to the nearest marker within 136 bytes with no instruction between is
    # not decidable here; report per cpu
    return "%s" % cpu


def case_item(item):
    exe, case, vdname = item
    os.makedirs(TMP, exist_ok=True)
    d = tempfile.mkdtemp(prefix="c18_", dir=TMP)
    res = {"case": case, "viol": [], "stats": [], "status": "ok"}
    try:
        o = settle(exe, d, case)
        res["case"] = case
        if o.san:
            res["status"] = "unassemblable"     # sanitizer reports of the assembler belong to C09/C10, not to the listing property
            res["why"] = "sanitizer: " + o.san["sig"]
            return res
        if o.signal or o.timed_out or o.wall_killed:
            res["status"] = "inconclusive"
            res["why"] = "naken_asm signal %s timed_out %s wall %s" % (o.signal, o.timed_out, o.wall_killed)
            return res
        if o.status != 0 or "out.hex" not in o.files:
            res["status"] = "unassemblable"
            res["why"] = o.stdout.strip()[-200:]
            return res
        vd = core.get_vdrv() if vdname else None
        for typ, out in (("hex", "out.hex"), ("bin", "out.bin")):
            if typ == "bin":
                o = assemble(exe, d, case, "bin", out)
                if o.san:
                    res["viol"].append(("crash/" + o.san["sig"], "naken_asm -l -type bin: " + o.san["sig"]))
                    continue
                if o.status != 0 or out not in o.files:
                    res["viol"].append(("bin/failed", "assembles with -type hex but not with -type bin: %s" % o.stdout.strip()[-120:]))
                    continue
            text = find_lst(d, out)
            if text is None:
                res["viol"].append(("listing/absent", "-l given but no .lst file written (%s)" % typ))
                continue
            data = open(os.path.join(d, out), "rb").read()
            if typ == "hex":
                img, meta, errs = decode.ihex(data)
                if errs:
                    res["viol"].append(("harness/ihex", errs[0]))
                    continue
                written = set(img)
                hex_img = img
            else:
                lo = min(written)
                img = {}
                for a in written:
                    if a - lo < len(data):
                        img[a] = data[a - lo]
                if len(data) != max(written) - lo + 1:
                    res["viol"].append(("bin/length", "bin file is %d bytes, hex image spans %d" % (len(data), max(written) - lo + 1)))
            v, st = check_listing(case, text, img, vd)
            st["type"] = typ
            res["stats"].append(st)
            seen = set()
            for k, desc in v:
                if k not in seen:
                    seen.add(k)
                    res["viol"].append((k, "[%s -type %s] %s" % (case["cpu"], typ, desc)))
        return res
    finally:
        shutil.rmtree(d, ignore_errors=True)


def cpu_table():
    # a private driver instance: the parent's must not be inherited by the forked workers
    from .. import driver
    vd = driver.Vdrv(core.ARTS["san"]["vdrv"])
    try:
        tab = {}
        for c in vd.cpus():
            tab[c["name"]] = c
        return tab
    finally:
        vd.close()


# longest-encoding forms the comparison corpus lacks (multi-word instructions are part of the property's quantifier)
EXTRA = {
    "68000": ["move.l #0x12345678, (0x11223344).l", "move.l (0x00123456).l, (0x00654322).l", "move.w #0x1234, (0x11223344).l",
              "addi.l #0x12345678, (0x00223344).l", "move.w (0x1234,a1), (0x0056,a2)"],
    "msp430": ["mov.w &0x1234, &0x5678", "add.w #0x1234, &0x5678"],
    "msp430x": ["mov.w &0x1234, &0x5678"],
}


def filter_pool(item):
    """keep the corpus lines that assemble on their own at two addresses (drops page-/range-bound branches with absolute targets)."""
    cpu, bpa, lines = item
    vd = core.get_vdrv()
    pre = ".%s\n" % cpu
    if cpu == "epiphany":
        pre += '.include "epiphany/epiphany.inc"\n'
    if cpu == "8051":
        pre += '.include "8051/8051.inc"\n'
    ok = []
    for ln in lines:
        good = True
        for org in (0x48, 0xa30):
            try:
                r = vd.asm("%s.org 0x%x\n  %s\n" % (pre, org // bpa, ln))
            except Exception:
                good = False
                break
            if r["rc"] != 0 or r["exit"] or r["high"] < r["low"]:
                good = False
                break
        if good:
            ok.append(ln)
    return {"cpu": cpu, "ok": ok}


def gen_items(run):
    quick = run.tier == "quick"
    exe = core.ARTS["san"]["naken_asm"]
    corp = corpus.load()
    tab = cpu_table()
    per = 10 if quick else 60
    items = []
    rng = run.rng
    want = []
    for cpu in sorted(corp):
        if cpu not in tab:
            continue
        pool = [x for x in corp[cpu] if usable(x)]
        rng.shuffle(pool)
        want.append((cpu, tab[cpu]["bpa"], EXTRA.get(cpu, []) * 3 + pool[:50 if quick else 250]))
    pools = {}
    for r in core.pmap(filter_pool, want, chunk=1):
        if "cpu" in r:
            pools[r["cpu"]] = r["ok"]
    run.cov["corpus_lines_usable"] = sum(len(v) for v in pools.values())
    for cpu in sorted(pools):
        pool = pools[cpu]
        if len(pool) < 5:
            continue
        bpa = tab[cpu]["bpa"]
        for i in range(per):
            many = 800 if (i == 1 and cpu in ("z80", "msp430", "avr8", "mips")) else 0
            case = gen_case(random.Random(rng.getrandbits(48)), cpu, bpa, pool, many, i)
            items.append((exe, case, tab[cpu]["dis"]))
    return items


def consume(run, r, stats):
    c = r["case"]
    cpu = c["cpu"]
    if r["status"] == "inconclusive":
        run.inconc(r["why"], {"cpu": cpu})
        return
    if r["status"] == "unassemblable":
        stats["unassemblable_programs"] = stats.get("unassemblable_programs", 0) + 1
        stats.setdefault("unassemblable_examples", [])
        if len(stats["unassemblable_examples"]) < 3:
            stats["unassemblable_examples"].append("%s: %s" % (cpu, r.get("why", "")[-100:]))
        return
    run.count()
    stats["source_lines_dropped"] = stats.get("source_lines_dropped", 0) + c.get("dropped", 0)
    allk = set(k for k, _ in r["viol"])
    bad = set(k for k in allk if k not in ("uncovered/include-body", "uncovered/repeat-last-iteration"))
    for st in r["stats"]:
        for k in ("lines", "cont_lines", "multiword", "text_checked", "dump_rows", "dump_partial", "dump_bytes", "instr_bytes", "syms_checked"):
            stats[k] = stats.get(k, 0) + st[k]
        stats["listings_" + st["type"]] = stats.get("listings_" + st["type"], 0) + 1
        if not bad:
            for fam in st["fam_used"]:
                run.nt((cpu, fam, "plain"))
                if st["multiword"]:
                    run.nt((cpu, fam, "multiword"))
                for con, kk in (("macro", None), ("include", "uncovered/include-body"), ("repeat", "uncovered/repeat-last-iteration")):
                    if kk not in allk:
                        run.nt((cpu, fam, con))
            if st["dump_rows"]:
                run.nt((cpu, "dump-row"))
            if st["dump_partial"]:
                run.nt((cpu, "dump-partial-row"))
            if st["syms_checked"]:
                run.nt((cpu, "symbols", "many" if c["many"] else "few"))
            run.nt((cpu, "summary"))
    stats.setdefault("cpus", set()).add(cpu)
    if r["stats"] and not bad and len(run.samples) < 4 and not c["many"]:
        run.sample({"cpu": cpu, "stats": r["stats"][0], "src_head": c["src"][:300]})
    for k, desc in r["viol"]:
        run.violation(k, c, desc)


def main(run):
    run.build("san")
    stats = {}
    items = gen_items(run)
    for r in core.pmap(case_item, items, chunk=1):
        if run.handle_common(r):
            continue
        if "_crash" in r:
            run.inconc("driver died: " + r["_crash"]["sig"], None)
            continue
        consume(run, r, stats)
    cpus = stats.pop("cpus", set())
    stats["cpus_checked"] = len(cpus)
    run.cov.update(stats)
    run.assumptions = [
        "only the 49 CPUs with a tests/comparison corpus are driven (the other listing formatters are not exercised)",
        "corpus instructions the assembler rejects in the generated context (out-of-range branches etc.) are dropped before the comparison",
        "an instruction line's own length is taken from the listing (bytes shown incl. continuation lines); bytes between it and the "
        "next line must then be shown by the data-section dump",
        "the disassembly-text facet compares with the in-process disassembler given exactly the bytes shown; skipped for CPUs in TEXT_SKIP",
        "data runs are multiples of 8 bytes so that code stays aligned on every CPU",
    ]
    run.require(">= 40 CPUs with a compared listing", len(cpus) >= 40)
    run.require(">= 1000 instruction lines byte-compared", stats.get("lines", 0) >= 1000)
    run.require(">= 200 data-section rows compared", stats.get("dump_rows", 0) >= 200)
    run.require(">= 100 partial data-section rows", stats.get("dump_partial", 0) >= 100)
    run.require(">= 300 symbol rows compared", stats.get("syms_checked", 0) >= 300)
    run.require(">= 500 instruction texts compared with the disassembler", stats.get("text_checked", 0) >= 500)
    return run.finish(lambda cs: replay_keys(run, cs))


def replay_keys(run, cases):
    exe = core.ARTS["san"]["naken_asm"]
    tab = cpu_table()
    out = []
    for c in cases:
        r = case_item((exe, dict(c), tab.get(c["cpu"], {}).get("dis", False)))
        out.append(set(k for k, _ in r["viol"]))
    return out


def replay_cli(doc, seed):
    run = core.Run("C18", "quick", seed, RULE)
    run.build("san")
    keys = replay_keys(run, [doc.get("case", doc)])[0]
    if keys:
        print("VIOLATION property=C18 replay=- keys=%s" % sorted(keys))
        return 1
    print("replay: no violation")
    return 0


# ------------------------------------------------------------------ developer tool

def learn():
    """print, per CPU, which families render its listing lines (unchanged tree)."""
    run = core.Run("C18", "quick", 1, RULE)
    run.build("san")
    exe = core.ARTS["san"]["naken_asm"]
    corp = corpus.load()
    tab = cpu_table()
    os.makedirs(TMP, exist_ok=True)
    allf = sorted(lst.FAMILIES)
    for cpu in sorted(corp):
        if cpu not in tab:
            print(cpu, "NOT-IN-CPU-LIST")
            continue
        pool = [x for x in corp[cpu] if usable(x)]
        tot = {}
        nolines = 0
        nl = 0
        for s in range(3):
            case = gen_case(random.Random(s * 77 + 5), cpu, tab[cpu]["bpa"], pool, 0, s)
            d = tempfile.mkdtemp(prefix="c18_", dir=TMP)
            try:
                o = settle(exe, d, case)
                if o.status != 0:
                    print(cpu, "unassemblable", o.stdout.strip()[-150:].replace("\n", "|"))
                    continue
                text = find_lst(d, "out.hex")
                img, meta, errs = decode.ihex(open(os.path.join(d, "out.hex"), "rb").read())
                lr = {}
                v, st = check_listing(case, text, img, None, families=allf, learn=lr)
                nl += st["lines"]
                for k, n in lr.items():
                    tot[k] = tot.get(k, 0) + n
                nolines += sum(1 for k, _ in v if k.endswith("/line-bytes"))
            finally:
                shutil.rmtree(d, ignore_errors=True)
        print("%-12s bpa=%d lines=%d nomatch=%d %s" % (cpu, tab[cpu]["bpa"], nl, nolines, tot))


if __name__ == "__main__":
    if sys.argv[1:] == ["learn"]:
        learn()
