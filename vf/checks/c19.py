"""C19 - naken_util memory commands address the same bytes everywhere.

Monitor: scripted sessions are fed to the real (ASan+UBSan) naken_util; a Python
shadow memory {byte address -> value} is updated by a reference interpreter of
the same command strings (address units x bytes-per-address, CPU byte order for
16/32-bit values, number spellings decimal / 0x.. / ..h); every row of every
print/print16/print32, the first row of every disasm, and the simulator's
"current instruction" line after set pc + step are parsed from the transcript
and compared with the shadow.  Every write is followed by a print of its
neighbourhood and every session ends with a sweep over all regions it touched, so
a write that changes an address it did not name is seen.  Some sessions start
from a file written by the real naken_asm (-type hex, or -type bin loaded with
-bin -address, optionally -set_pc).
"""
import os
import random
import re
import shutil
import tempfile

from .. import core, proc

RULE = ("generated naken_util sessions (6..40 commands: write/write16/write32 each followed by a print/print16/print32 of the "
        "neighbourhood, disasm of written words, set pc + step on simulated CPUs, interactive asm blocks, final sweep of all touched "
        "regions) over 12 CPUs covering bytes-per-address 1/2/4 and both byte orders; byte addresses at 0, 64 KiB page ends and "
        "crossings, 24-bit, 2^31 crossing, 0xffff0000; numbers spelled decimal, 0x lower/upper/mixed, ..h; optionally preloaded from "
        "a naken_asm-written hex or bin(+ -address/-set_pc) file. distinct_nontrivial = distinct (reader command, writer command, "
        "address class, cpu class bpaN-le|be, spelling class) read-backs whose parsed values were compared with the shadow memory "
        "and contained at least one non-zero byte.")

TMP = os.path.join(core.VERIF, ".work", "tmp")

# name: (bytes per address, byte order, alignment)  -- the CPU facts the statement refers to
CPUS = {
    "msp430": (1, "le", 2), "6502": (1, "le", 1), "avr8": (2, "le", 2), "lc3": (2, "be", 2), "mips": (1, "be", 4),
    "mips32": (1, "le", 4), "propeller": (4, "le", 4), "68000": (1, "be", 2), "stm8": (1, "be", 1), "cp1610": (2, "be", 1),
    "tms9900": (1, "be", 2), "pic14": (2, "le", 2),
}
CPU_ORDER = ["msp430", "6502", "avr8", "lc3", "mips", "mips32", "propeller", "68000", "stm8", "cp1610", "tms9900", "pic14"]
# harmless opcodes (no memory write, no jump) for the simulator-fetch comparison: cpu -> (width bytes, values)
SIM_OPS = {"msp430": (2, [0x4303, 0x4405, 0x4607, 0x480a]), "avr8": (2, [0x2c12, 0x2c34, 0x2e05, 0x0000]),
           "stm8": (1, [0x9d, 0x4f, 0x5f, 0x4c])}
# instruction -> bytes, for interactive asm blocks (bytes-per-address 1 CPUs)
ASM_OPS = {"msp430": [("nop", [0x03, 0x43]), ("ret", [0x30, 0x41])], "6502": [("nop", [0xea]), ("rts", [0x60])],
           "68000": [("nop", [0x4e, 0x71]), ("rts", [0x4e, 0x75])], "stm8": [("nop", [0x9d]), ("ret", [0x81])]}

# 68000: the disassembler walks backwards and never terminates on some unknown opcodes (e.g. ffff a5ff 7ca5) - not C19's subject
NO_DISASM = {"68000"}

# byte-address bases by class
BASES = [("zero", 0), ("low", 0x40), ("low", 0x1230), ("page-end", 0xffe0), ("page-end", 0xfff8), ("page-start", 0x10000),
         ("page-end", 0x1fff0), ("page-start", 0x20000), ("24bit", 0xfffff0), ("24bit", 0x1000000), ("2g", 0x7fffffe0),
         ("2g", 0x80000000), ("hi32", 0xffff0000)]


# ----------------------------------------------------------------- reference number / command rules

def parse_num(s):
    """decimal, 0x<hex>, <hex>h (either digit case)."""
    if s.startswith("0x"):
        return int(s[2:], 16)
    if s.endswith("h"):
        return int(s[:-1], 16)
    return int(s, 10)


def spell(rng, v, forms):
    f = rng.choice(forms)
    if v >= (1 << 31) or f == "dec":
        return str(v), "dec"
    h = "%x" % v
    if f == "0x":
        return "0x" + h, "0x-lower"
    if f == "0xU":
        return "0x" + h.upper(), ("0x-upper" if h.upper() != h else "0x-lower")
    if f == "0xM":
        m = "".join(c.upper() if rng.random() < 0.5 else c for c in h)
        return "0x" + m, ("0x-mixed" if m != h else "0x-lower")
    if f == "0x0":
        return "0x00" + h, "0x-lower"
    if f == "h":
        return h + "h", "h-lower"
    if f == "hU":
        return h.upper() + "h", ("h-upper" if h.upper() != h else "h-lower")
    return str(v), "dec"


ALL_FORMS = ["dec", "dec", "0x", "0x", "0xU", "0xM", "0x0"]
RANGE_FORMS = ALL_FORMS + ["h", "hU"]


def word_bytes(v, w, order):
    b = [(v >> (8 * i)) & 0xff for i in range(w)]
    return b if order == "le" else b[::-1]


def bytes_word(bs, order):
    if order == "be":
        bs = bs[::-1]
    return sum(b << (8 * i) for i, b in enumerate(bs))


def h_form_ok(toks):
    """write-family argument lists using the ..h spelling that the stated rule covers and that today's parser handles:
    only the last token is h-spelled and every earlier token is 0x-spelled (S-class defect otherwise, see NOTES)."""
    hs = [t for t in toks if t.endswith("h") and not t.startswith("0x")]
    if not hs:
        return True
    return len(hs) == 1 and toks[-1] == hs[0] and all(t.startswith("0x") for t in toks[:-1])


class Shadow(object):
    def __init__(self, cpu):
        self.cpu = cpu
        self.bpa, self.order, self.align = CPUS[cpu]
        self.mem = {}
        self.writer = {}

    def get(self, a):
        return self.mem.get(a, 0)

    def put(self, a, v, who):
        self.mem[a] = v & 0xff
        self.writer[a] = who


def interpret(case):
    """Reference interpreter: returns (list of per-command expectations, shadow).  expectation = dict(kind=..., ...) with
    a snapshot function evaluated lazily against a frozen copy of the shadow at that point."""
    cpu = case["cpu"]
    sh = Shadow(cpu)
    load = case.get("load")
    if load:
        for i, b in enumerate(load_bytes(load)):
            sh.put(load["at"] + i, b, "load-" + load["type"])
    exps = []
    in_asm = None
    pc = load.get("set_pc") if load else None
    tainted = False
    for idx, line in enumerate(case["cmds"]):
        e = {"idx": idx, "line": line, "kind": "other", "tainted": tainted}
        if in_asm is not None:
            if line.strip() == "":
                a = in_asm["org"]
                for ins in in_asm["lines"]:
                    bs = dict(ASM_OPS[cpu])[ins]
                    for b in bs:
                        sh.put(a, b, "asm")
                        a += 1
                in_asm = None
            else:
                in_asm["lines"].append(line.strip())
            e["kind"] = "asm-line"
            exps.append(e)
            continue
        parts = line.split()
        cmd = parts[0] if parts else ""
        if cmd in ("write", "write16", "write32"):
            w = {"write": 1, "write16": 2, "write32": 4}[cmd]
            toks = parts[1:]
            if not h_form_ok(toks):
                tainted = True
                e["tainted"] = True
            a = parse_num(toks[0]) * sh.bpa
            for t in toks[1:]:
                for b in word_bytes(parse_num(t), w, sh.order):
                    sh.put(a, b, cmd)
                    a += 1
            e["kind"] = "write"
        elif cmd in ("print", "print16", "print32"):
            w = {"print": 1, "print16": 2, "print32": 4}[cmd]
            rng_s = "".join(parts[1:])
            if "-" in rng_s:
                s, t = rng_s.split("-")
                start, end = parse_num(s) * sh.bpa, parse_num(t) * sh.bpa
            else:
                start = end = parse_num(rng_s) * sh.bpa
            e.update(kind="print", width=w, start=start, end=end, mem=dict(sh.mem), writer=dict(sh.writer))
        elif cmd == "disasm":
            s = "".join(parts[1:]).split("-")[0]
            e.update(kind="disasm", start=parse_num(s) * sh.bpa, mem=dict(sh.mem), writer=dict(sh.writer))
        elif cmd == "set" and parts[1].startswith("pc="):
            pc = parse_num(parts[1][3:])
        elif cmd == "step":
            e.update(kind="step", pc=pc, mem=dict(sh.mem), writer=dict(sh.writer))
        elif cmd == "asm":
            in_asm = {"org": int(parts[1], 0), "lines": []}
        exps.append(e)
    return exps, sh


# ----------------------------------------------------------------- files

def load_bytes(load):
    r = random.Random(load["seed"])
    bs = [r.randrange(1, 256) for _ in range(load["n"])]
    if load.get("head"):
        bs[:len(load["head"])] = load["head"]
    return bs


def make_file(exe_asm, d, cpu, load):
    """the real naken_asm writes the file from a .db program."""
    bpa = CPUS[cpu][0]
    bs = load_bytes(load)
    org = load["org"]
    lines = [".%s" % cpu, ".org 0x%x" % (org // bpa)]
    for i in range(0, len(bs), 16):
        lines.append(".db " + ",".join(str(b) for b in bs[i:i + 16]))
    core.write_tmp(d, "p.asm", "\n".join(lines) + "\n")
    out = "p." + load["type"]
    o = proc.run([exe_asm, "-type", load["type"], "-o", out, "p.asm"], cwd=d, cpu_s=5, fsize_mb=8)
    if o.status != 0 or out not in o.files or o.san:
        return None, "naken_asm -type %s failed (exit %s): %s" % (load["type"], o.status, o.stdout.strip()[-100:])
    argv = []
    if load["type"] == "bin":
        argv += ["-bin", "-address", load["address_arg"]]
    if load.get("set_pc") is not None:
        argv += ["-set_pc", load["set_pc_arg"]]
    return argv + [out], None


# ----------------------------------------------------------------- transcript

PROMPT = re.compile(r"^(stopped|asm|running)> ?(.*)$")
ROWHDR = re.compile(r"^0x([0-9a-f]+):(.*)$")
DISROW = re.compile(r"^0x([0-9a-f]+):\s+(?:0x)?([0-9a-f]+)(?:\s|$)")
SIMROW = re.compile(r"^[ *]! 0x([0-9a-f]+):\s+(?:0x)?([0-9a-f]+)(?:\s|$)")
ANSI = re.compile(r"\x1b\[[0-9;?]*[A-Za-z]")


def split_transcript(text):
    """-> list of (echoed command, [output lines])."""
    out = []
    cur = None
    for ln in ANSI.sub("", text).split("\n"):
        ln = ln.rstrip("\r")
        m = PROMPT.match(ln)
        if m:
            cur = (m.group(2), [])
            out.append(cur)
        elif cur is not None:
            cur[1].append(ln)
    return out


def parse_rows(lines, w):
    """print rows -> list of (label, [values]); fixed-width slots, stop at the first slot that is not a value."""
    rows = []
    slot = 1 + 2 * w
    per = 16 // w
    for ln in lines:
        m = ROWHDR.match(ln)
        if not m:
            continue
        rest = m.group(2)
        vals = []
        for k in range(per):
            s = rest[k * slot:(k + 1) * slot]
            if len(s) == slot and s[0] == " " and re.match(r"^[0-9a-f]+$", s[1:]):
                vals.append(int(s[1:], 16))
            else:
                break
        rows.append((int(m.group(1), 16), vals))
    return rows


def addr_class(a):
    if a < 0x40:
        return "zero"
    if a < 0xff00:
        return "low"
    if a < 0x30000:
        return "page-edge"
    if a < 0x2000000:
        return "24bit"
    if a < 0x90000000:
        return "2g"
    return "hi32"


def spelling_class(line):
    toks = re.split(r"[ \-]+", line)[1:]
    cl = set()
    for t in toks:
        if t.startswith("0x"):
            d = t[2:]
            cl.add("0x-upper" if d != d.lower() else "0x")
        elif t.endswith("h"):
            d = t[:-1]
            cl.add("h-upper" if d != d.lower() else "h")
        elif t:
            cl.add("dec")
    return "+".join(sorted(cl))


def evaluate(case, exe_util, exe_asm):
    """-> dict(viol=[(key, desc)], nt=[...], counts={...}, inconc=None|str)"""
    cpu = case["cpu"]
    bpa, order, align = CPUS[cpu]
    cls = "bpa%d-%s" % (bpa, order)
    res = {"viol": [], "nt": [], "counts": {}, "inconc": None, "case": case}

    def cnt(k, n=1):
        res["counts"][k] = res["counts"].get(k, 0) + n

    def viol(e, cmd, width, rule, desc, writer=None):
        if e is not None and e.get("tainted"):
            key = "write*/any/any/h-suffix-scans-whole-line"
        elif cmd == "asm" or writer == "asm":
            key = "asm/any/any/%s" % ("block-not-assembled" if res.get("asm_rejected") else rule)
        else:
            key = "%s%s/%s/%s/%s" % ((writer + "+") if writer else "", cmd, width, cls, rule)
        res["viol"].append((key, "%s: `%s`: %s" % (cpu, e["line"] if e else "-", desc)))

    exps, sh = interpret(case)
    os.makedirs(TMP, exist_ok=True)
    d = tempfile.mkdtemp(prefix="c19_", dir=TMP)
    try:
        argv = [exe_util, "-" + cpu]
        load = case.get("load")
        if load:
            extra, err = make_file(exe_asm, d, cpu, load)
            if extra is None:
                res["inconc"] = err
                return res
            argv += extra
        script = "".join(c + "\n" for c in case["cmds"]) + "quit\n"
        o = proc.run(argv, cwd=d, stdin_data=script, cpu_s=3, fsize_mb=16, env=proc.base_env({"COLUMNS": "2000", "LINES": "50"}))
    finally:
        shutil.rmtree(d, ignore_errors=True)
    if o.wall_killed:
        res["inconc"] = "wall watchdog"
        return res
    chunks = split_transcript(o.stdout)
    if load and "Loaded" not in o.stdout and not (o.san or o.signal):
        viol(None, "load-" + load["type"], 8, "file-rejected",
             "naken_util does not load the file naken_asm wrote: " + o.stdout.strip()[-120:].replace("\n", " | "))
        return res
    # align echoed commands with the script
    n_ok = 0
    for i, e in enumerate(exps):
        if i < len(chunks) and chunks[i][0].strip() == e["line"].strip():
            n_ok += 1
        else:
            break
    died = bool(o.san or o.signal or o.timed_out)
    if not died and n_ok < len(exps):
        res["inconc"] = "transcript out of step at command %d (%r)" % (n_ok, chunks[n_ok][0] if n_ok < len(chunks) else None)
        return res
    if died:
        # the command that was executing is the last one echoed
        k = min(max(n_ok - 1, 0), len(exps) - 1)
        e = exps[k]
        what = o.san["kind"] if o.san else ("hang" if o.timed_out else "signal%s" % o.signal)
        func = o.san["func"] if o.san else "?"
        cmd = e["line"].split()[0] if e["line"].split() else "empty"
        viol(e, cmd, "any", "died:%s:%s" % (what, func), "naken_util died (%s in %s) executing a well-formed command" % (what, func))
        n_ok = k   # outputs of earlier commands are complete (stdout is flushed at every prompt)
    for i in range(n_ok):
        e = exps[i]
        lines = chunks[i][1]
        cnt("commands")
        if e["kind"] == "asm-line" and e["line"].strip() and any(l.startswith("Unknown command") for l in lines):
            res["asm_rejected"] = True    # S22: the instruction line was refused by the command validator
        if e["kind"] == "print":
            w = e["width"]
            cmd = "print" if w == 1 else "print%d" % (8 * w)
            rows = parse_rows(lines, w)
            cnt("print_rows", len(rows))
            if not rows or not rows[0][1]:
                viol(e, cmd, 8 * w, "no-output", "no data row printed: " + " | ".join(lines)[:120])
                continue
            seen = {}
            bad = None
            nonzero = False
            writers = set()
            for label, vals in rows:
                a = label * bpa
                for v in vals:
                    want = bytes_word([e["mem"].get(a + j, 0) for j in range(w)], order)
                    for j in range(w):
                        seen[a + j] = True
                        if (a + j) in e["writer"]:
                            writers.add(e["writer"][a + j])
                    cnt("values_compared")
                    if want:
                        nonzero = True
                    if v != want and bad is None:
                        ws = sorted(set(e["writer"].get(a + j, "none") for j in range(w)))
                        bad = (a, v, want, "+".join(ws))
                    a += w
            if bad:
                a, v, want, wr = bad
                rule = "untouched-address-changed" if wr == "none" else "value-mismatch"
                viol(e, cmd, 8 * w, rule, "shows %0*x at byte address 0x%x, the command history put %0*x there (last writer: %s)"
                     % (2 * w, v, a, 2 * w, want, wr), writer=None if wr == "none" else wr)
                continue
            if rows[0][0] * bpa != e["start"]:
                viol(e, cmd, 8 * w, "row-address", "first row is labelled 0x%x, range starts at address 0x%x" %
                     (rows[0][0], e["start"] // bpa))
                continue
            need_end = e["end"] if e["end"] > e["start"] else e["start"] + 1
            miss = [a for a in range(e["start"], min(need_end, e["start"] + 4096)) if a not in seen]
            if miss:
                viol(e, cmd, 8 * w, "range-not-covered", "byte address 0x%x inside the named range was not printed" % miss[0])
                continue
            if nonzero:
                for wr in writers or {"none"}:
                    res["nt"].append((cmd, wr, addr_class(e["start"]), cls, spelling_class(e["line"])))
        elif e["kind"] == "disasm":
            row = None
            for ln in lines:
                m = DISROW.match(ln)
                if m:
                    row = m
                    break
            if row is None:
                viol(e, "disasm", "any", "no-output", "no instruction row printed: " + " | ".join(lines)[:120])
                continue
            label, tok = int(row.group(1), 16), row.group(2)
            w = len(tok) // 2
            cnt("disasm_rows")
            if label * bpa != e["start"]:
                viol(e, "disasm", 8 * w, "row-address", "first row is labelled 0x%x, named address 0x%x" % (label, e["start"] // bpa))
                continue
            want = bytes_word([e["mem"].get(e["start"] + j, 0) for j in range(w)], order)
            wr = "+".join(sorted(set(e["writer"].get(e["start"] + j, "none") for j in range(w))))
            if int(tok, 16) != want:
                viol(e, "disasm", 8 * w, "value-mismatch", "shows opcode %s at 0x%x, memory holds %0*x (last writer: %s)" %
                     (tok, label, 2 * w, want, wr), writer=None if wr == "none" else wr)
            elif want:
                res["nt"].append(("disasm", wr, addr_class(e["start"]), cls, spelling_class(e["line"])))
        elif e["kind"] == "step":
            row = None
            for ln in lines:
                m = SIMROW.match(ln)
                if m:
                    row = m
                    break
            if row is None:
                viol(e, "step", "any", "no-output", "simulator showed no current-instruction row: " + " | ".join(lines)[-120:])
                continue
            label, tok = int(row.group(1), 16), row.group(2)
            w = len(tok) // 2
            cnt("sim_rows")
            if label != e["pc"]:
                viol(e, "step", 8 * w, "pc", "simulator executed at 0x%x, pc was set to 0x%x" % (label, e["pc"]))
                continue
            a = e["pc"] * bpa
            want = bytes_word([e["mem"].get(a + j, 0) for j in range(w)], order)
            wr = "+".join(sorted(set(e["writer"].get(a + j, "none") for j in range(w))))
            if int(tok, 16) != want:
                viol(e, "step", 8 * w, "value-mismatch", "simulator fetched %s at 0x%x, memory holds %0*x (last writer: %s)" %
                     (tok, label, 2 * w, want, wr), writer=None if wr == "none" else wr)
            elif want:
                res["nt"].append(("step", wr, addr_class(a), cls, "pc"))
    # one key per root cause and session is enough
    seen_k = set()
    res["viol"] = [v for v in res["viol"] if not (v[0] in seen_k or seen_k.add(v[0]))]
    return res


# ----------------------------------------------------------------- generation

def aligned(a, m):
    return a - a % m


def gen_session(rng, cpu, quick, kind):
    bpa, order, align = CPUS[cpu]
    cmds = []
    case = {"cpu": cpu, "cmds": cmds, "kind": kind}
    touched = []   # (lo, hi) byte ranges
    nreg = rng.randint(1, 3)
    bases = [rng.choice(BASES)[1] for _ in range(nreg)]
    if rng.random() < 0.5:
        # a lower page first, then the first byte of the next page (page bookkeeping)
        p = rng.choice([0x10000, 0x20000, 0x1000000, 0x80000000])
        bases = [p - 16, p] + bases[:1]
    if kind == "load-hex":
        n = rng.choice([1, 7, 16, 33, 100])
        org = aligned(rng.choice(BASES)[1], 16)
        case["load"] = {"type": "hex", "org": org, "at": org, "n": n + (-n) % bpa, "seed": rng.getrandbits(24)}
        touched.append((org, org + n))
    elif kind == "load-bin":
        n = rng.choice([2, 9, 16, 40, 130])
        at = aligned(rng.choice([b for _, b in BASES if b < 0x7f000000]), 16)
        ld = {"type": "bin", "org": 0x100, "at": at, "n": n, "seed": rng.getrandbits(24)}
        ld["address_arg"] = rng.choice(["%d", "0x%x", "0x%X"]) % at
        if cpu in SIM_OPS and at < 0xff00:
            w, ops = SIM_OPS[cpu]
            ld["head"] = word_bytes(rng.choice(ops[:3]), w, order)
            ld["set_pc"] = at // bpa
            ld["set_pc_arg"] = rng.choice(["%d", "0x%x"]) % (at // bpa)
            cmds += ["no_clear", "step"]
        case["load"] = ld
        touched.append((at, at + n))
    for lo, hi in list(touched):
        s = aligned(max(0, lo - 16), 16)
        cmds.append("print %s-%s" % (spell(rng, s // bpa, RANGE_FORMS)[0], spell(rng, (hi + 16 + bpa - 1) // bpa, RANGE_FORMS)[0]))
    nw = rng.randint(2, 5 if quick else 9)
    for _ in range(nw):
        base = rng.choice(bases)
        cmd, w = rng.choice([("write", 1), ("write", 1), ("write16", 2), ("write32", 4)])
        unit = max(bpa, w if (align > 1 or rng.random() < 0.6) else 1)
        a = base + aligned(rng.choice([0, 0, 1, 2, 3, 5, 8, 12, 14, 15, 16, 24, 30, 31]), unit)
        a = aligned(a, unit)
        nv = rng.choice([1, 1, 2, 3, 4, 6, 9] + ([17, 40] if w == 1 else []))
        if a + nv * w + 64 >= (1 << 32):
            a = aligned(0xffff0000, unit)
        vals = [rng.choice([rng.randrange(1, 1 << (8 * w)), rng.randrange(1, 256) << (8 * (w - 1)), (1 << (8 * w)) - 1, 0xa5 & ((1 << (8 * w)) - 1)])
                or 1 for _ in range(nv)]
        use_h = rng.random() < 0.12 and a // bpa < (1 << 31) and all(v < (1 << 31) for v in vals)
        if use_h:
            toks = [spell(rng, a // bpa, ["0x", "0xU"])[0]] + [spell(rng, v, ["0x", "0xM"])[0] for v in vals[:-1]]
            toks.append(spell(rng, vals[-1], ["h", "hU"])[0])
        else:
            toks = [spell(rng, a // bpa, ALL_FORMS)[0]] + [spell(rng, v, ALL_FORMS)[0] for v in vals]
        cmds.append(cmd + " " + " ".join(toks))
        lo, hi = a, a + nv * w
        touched.append((lo, hi))
        # read back the neighbourhood with a random reader
        rcmd, rw = rng.choice([("print", 1), ("print", 1), ("print16", 2), ("print32", 4)])
        runit = max(bpa, rw if align > 1 else rng.choice([1, rw]))
        if align > 1:
            runit = max(runit, min(align, rw), 1)
        s = aligned(max(0, lo - rng.choice([0, 1, 4, 16, 20])), max(runit, bpa))
        t = hi + rng.choice([0, 1, 4, 16, 20])
        t += (-t) % bpa
        if t <= s:
            t = s + bpa
        sep = rng.choice(["-", "-", "-", " - "])
        cmds.append("%s %s%s%s" % (rcmd, spell(rng, s // bpa, RANGE_FORMS)[0], sep, spell(rng, t // bpa, RANGE_FORMS)[0]))
        if rng.random() < 0.35 and a < 0x7f000000 and cpu not in NO_DISASM:
            da = aligned(a, max(align, bpa))
            cmds.append("disasm %s-%s" % (spell(rng, da // bpa, RANGE_FORMS)[0], spell(rng, (da + 4) // bpa, RANGE_FORMS)[0]))
    if kind == "sim" and cpu in SIM_OPS:
        w, ops = SIM_OPS[cpu]
        a = aligned(rng.randrange(0x200, 0xf000), max(w, bpa))
        op = rng.choice(ops)
        cmds.append("%s %s %s" % ("write" if w == 1 else "write16", spell(rng, a // bpa, ALL_FORMS)[0], spell(rng, op, ALL_FORMS)[0]))
        cmds += ["no_clear", "set pc=0x%x" % (a // bpa), "step"]
        touched.append((a, a + w))
    if kind == "asm" and cpu in ASM_OPS:
        org = aligned(rng.randrange(0x200, 0xf000), 4)
        ins = [rng.choice(ASM_OPS[cpu])[0] for _ in range(rng.randint(1, 3))]
        cmds.append("asm 0x%x" % org)
        cmds += ins
        cmds.append(" ")
        cmds.append("print 0x%x-0x%x" % (org, org + 8))
        touched.append((org, org + 8))
    if kind == "h-broken":
        # ..h spellings outside the subset today's parser handles: kept last, everything after it is attributed to that form
        a = aligned(rng.choice([0x40, 0x1230, 0x20000]), 4)
        form = rng.choice(["addr-h", "mid-h", "dec-then-h"])
        if form == "addr-h":
            line = "write %xh 0x11 0x22" % (a // bpa)
        elif form == "mid-h":
            line = "write 0x%x 21h 0x22" % (a // bpa)
        else:
            line = "write 0x%x 10 22h" % (a // bpa)
        cmds.append(line)
        cmds.append("print 0x%x-0x%x" % (a // bpa, (a + 16) // bpa))
    # final sweep: every touched region, merged
    regs = sorted((aligned(max(0, lo - 32), 16), hi + 32) for lo, hi in touched)
    merged = []
    for lo, hi in regs:
        if merged and lo <= merged[-1][1]:
            merged[-1][1] = max(merged[-1][1], hi)
        else:
            merged.append([lo, hi])
    for lo, hi in merged:
        hi = min(hi + (-hi) % 16, (1 << 32) - 16)
        cmds.append("print 0x%x-0x%x" % (lo // bpa, hi // bpa) if hi < (1 << 31) else "print %d-%d" % (lo // bpa, hi // bpa))
    return case


def gen_items(run):
    quick = run.tier == "quick"
    exe_util = core.ARTS["san"]["naken_util"]
    exe_asm = core.ARTS["san"]["naken_asm"]
    n = 1200 if quick else 20000
    items = []
    rng = run.rng
    for i in range(n):
        cpu = CPU_ORDER[i % len(CPU_ORDER)]
        r = rng.random()
        if r < 0.12:
            kind = "load-hex"
        elif r < 0.24:
            kind = "load-bin" if CPUS[cpu][0] == 1 else "plain"
        elif r < 0.40:
            kind = "sim" if cpu in SIM_OPS else "plain"
        elif r < 0.46:
            kind = "asm" if cpu in ASM_OPS else "plain"
        elif r < 0.49:
            kind = "h-broken"
        else:
            kind = "plain"
        items.append((gen_session(random.Random(rng.getrandbits(48)), cpu, quick, kind), exe_util, exe_asm))
    return items


def work(item):
    case, exe_util, exe_asm = item
    return evaluate(case, exe_util, exe_asm)


def consume(run, r, stats):
    c = r["case"]
    if r["inconc"]:
        run.inconc(r["inconc"], c)
        return
    run.count()
    for k, v in r["counts"].items():
        stats[k] = stats.get(k, 0) + v
    stats["sessions_" + c.get("kind", "plain")] = stats.get("sessions_" + c.get("kind", "plain"), 0) + 1
    cls = "bpa%d-%s" % CPUS[c["cpu"]][:2]
    stats["sessions_" + cls] = stats.get("sessions_" + cls, 0) + 1
    for t in r["nt"]:
        run.nt(t)
        stats["readbacks_" + t[0]] = stats.get("readbacks_" + t[0], 0) + 1
    if not r["viol"] and len(run.samples) < 4:
        run.sample({"cpu": c["cpu"], "load": c.get("load"), "cmds": c["cmds"][:12]})
    for key, desc in r["viol"]:
        run.violation(key, {k: c[k] for k in ("cpu", "cmds", "kind", "load") if k in c}, desc)


def main(run):
    run.build("san")
    stats = {}
    for r in core.pmap(work, gen_items(run), chunk=4):
        if run.handle_common(r):
            continue
        consume(run, r, stats)
    run.cov.update(stats)
    run.assumptions = [
        "CPU facts (bytes per address, byte order, alignment) of the 12 CPUs are taken from their architecture as tabulated in CPUS",
        "a-b ranges are read as the tool documents them (bytes from a up to, not including, b); only coverage of that span is demanded",
        "hex spellings are used for values < 2^31 only (UtilContext::get_hex accumulates in a signed int; larger values are a sanitizer "
        "report, C17's subject); addresses >= 2^31 are spelled in decimal",
        "-address is used with bytes-per-address 1 CPUs only and below 2^31 (file_read treats a negative int as failure)",
        "malformed commands (S11) are not generated; only the first row of a disasm and the simulator's current-instruction row are compared",
        "16/32-bit accesses are naturally aligned except on alignment-1 CPUs",
    ]
    run.require(">= 2000 printed values compared with the shadow", stats.get("values_compared", 0) >= 2000)
    run.require("disasm rows compared", stats.get("disasm_rows", 0) >= 20)
    run.require("simulator fetch rows compared", stats.get("sim_rows", 0) >= 5)
    run.require("sessions on bpa 1, 2 and 4 and both byte orders",
                all(stats.get("sessions_" + c, 0) > 0 for c in ("bpa1-le", "bpa1-be", "bpa2-le", "bpa2-be", "bpa4-le")))
    run.require("file-preloaded sessions ran", stats.get("sessions_load-hex", 0) > 0 and stats.get("sessions_load-bin", 0) > 0)
    return run.finish(lambda cs: replay_keys(run, cs))


def replay_keys(run, cases):
    exe_util = core.ARTS["san"]["naken_util"]
    exe_asm = core.ARTS["san"]["naken_asm"]
    out = []
    for c in cases:
        r = evaluate(c, exe_util, exe_asm)
        out.append(set(k for k, _ in r["viol"]))
    return out


def replay_cli(doc, seed):
    run = core.Run("C19", "quick", seed, RULE)
    run.build("san")
    keys = replay_keys(run, [doc.get("case", doc)])[0]
    if keys:
        print("VIOLATION property=C19 replay=- keys=%s" % sorted(keys))
        return 1
    print("replay: no violation")
    return 0
