"""C15 - every simulator survives every opcode, deterministically.

One simulated step (Simulate::run(-1, 1) of a freshly constructed simulator
object inside the sanitizer build of the in-process driver) is executed for a
leading 16-bit pattern x operand tail x register/PC state x display on/off.
Events:
  * the worker dies with an ASan/UBSan report or a signal          -> <cpu>/<kind>/<function>
  * the step does not return inside the CPU-time budget            -> <cpu>/hang
  * exit() is called although no break_io address is configured    -> <cpu>/exit-without-break_io
  * (the value returned by run() is recorded, not judged)
  * the same request executed twice in one worker, or once more on
    a fresh worker, gives a different (rc, registers, register dump,
    memory diff, console text)                                      -> <cpu>/nondeterministic
Every request is executed twice; a stride of the requests of each chunk is
executed a third time on a fresh worker process.
"""
import random
import re
import zlib

from .. import core, driver, proc

PID = "C15"

RULE = ("per simulator: leading 16-bit patterns (thorough: all 65536; quick: a seeded stratified sample that contains "
        "every first byte and every second byte at least once, ~512 patterns) x combos (operand tail 00../ff../fixed pseudo-random, register state reset/all-ones/"
        "pseudo-random/SP-and-PC-at-the-edges, display off/on), one step each, executed twice in one worker and for a "
        "stride again on a fresh worker. distinct_nontrivial = distinct (simulator, opcode class byte, combo) whose step "
        "returned control and was compared with its repetition.")

# canonical simulator names (one per Simulate* class); extra aliases differ in endianness only
SIMS = ["msp430", "1802", "6502", "65816", "8008", "avr8", "ebpf", "f100_l", "lc3", "mips", "riscv", "stm8",
        "tms1000", "tms9900", "z80"]
EXTRA_THOROUGH = ["mips32"]

# names accepted by each simulate/<cpu>.cpp set_reg() (read off the implementations, probed at start-up)
REGS = {
    "msp430": ["r%d" % i for i in range(1, 16)],
    "1802": ["d", "df", "p", "x", "t", "q", "ie"] + ["r%d" % i for i in range(16)],
    "6502": ["a", "x", "y", "sr", "sp"],
    "65816": ["a", "x", "y", "sr", "sp", "db", "pb"],
    "8008": ["sp", "a", "b", "c", "d", "e", "h", "l"],
    "avr8": ["sp"] + ["r%d" % i for i in range(32)],
    "ebpf": ["r%d" % i for i in range(11)],
    "f100_l": ["a", "cr"],
    "lc3": ["r%d" % i for i in range(8)],
    "mips": ["$%02d" % i for i in range(1, 32)],
    "mips32": ["$%02d" % i for i in range(1, 32)],
    "riscv": ["x%d" % i for i in range(1, 32)],
    "stm8": ["A", "X", "Y", "SP", "CC"],
    "tms1000": ["a", "x", "y", "r", "o", "k"],
    "tms9900": ["r%d" % i for i in range(16)],
    "z80": ["a", "b", "c", "d", "e", "h", "l", "f", "ix", "iy", "sp", "i", "r", "iff", "im"],
}
SPREG = {"msp430": "r1", "1802": "r2", "6502": "sp", "65816": "sp", "8008": "sp", "avr8": "sp", "ebpf": "r10",
         "lc3": "r6", "mips": "$29", "mips32": "$29", "riscv": "x2", "stm8": "SP", "z80": "sp"}
BITS32 = {"mips", "mips32", "riscv", "ebpf"}      # simulators with a 32-bit address space
# byte of the leading pair that carries the major opcode (little-endian 16-bit words: the second byte)
CLASS_BYTE = {"msp430": 1, "avr8": 1, "f100_l": 1}
TOP_PC = {"8008": 0x3fff, "tms1000": 0x3ff, "65816": 0xffff, "mips": 0xfffffffc, "mips32": 0xfffffffc,
          "riscv": 0xfffffffc, "ebpf": 0xfffffff8, "msp430": 0xfffe, "avr8": 0xffff, "f100_l": 0xfffe,
          "lc3": 0xffff, "tms9900": 0xfffe}

PCV = 0x200
TAILS = {
    "z": bytes(14),
    "f": bytes([0xff] * 14),
    "r": bytes((i * 73 + 41) & 0xff for i in range(14)),
    "s": bytes((i * 151 + 7) & 0xff for i in range(14)),
}
# combo id -> (tail, state, show)
COMBOS = {
    0: ("z", "reset", 0),
    1: ("f", "ones", 1),
    2: ("r", "rnd", 0),
    3: ("s", "edge0", 1),
    4: ("r", "edge1", 0),
    5: ("f", "edgetop", 0),
    6: ("z", "rnd", 1),
}
QUICK_COMBOS = [0, 1, 2, 3]
FULL_COMBOS = [0, 1, 2, 3]          # applied to all 65536 patterns in the thorough tier
SPARSE_COMBOS = [4, 5, 6]           # applied to the stratified sample only
STEP_CPU_S = 2
FRESH_STRIDE = 24
MAX_HANGS_PER_CHUNK = 6
MAX_DEATHS_PER_CLASS = 2     # per (opcode class byte, combo) inside one chunk; the rest of the class is skipped


def cbyte(cpu, pat):
    return (pat & 0xff) if CLASS_BYTE.get(cpu) else (pat >> 8)


def make_request(cpu, pat, combo):
    tail, state, show = COMBOS[combo]
    img = bytes([pat >> 8, pat & 0xff]) + TAILS[tail]
    regs = []
    pc = PCV
    names = REGS[cpu]
    if state == "ones":
        regs = [(n, 0xffffffff) for n in names]
    elif state == "rnd" or state.startswith("edge"):
        r = random.Random(zlib.crc32((cpu + state).encode()))
        regs = [(n, r.getrandbits(32)) for n in names]
    if state.startswith("edge"):
        sp = SPREG.get(cpu)
        spv = {"edge0": 0, "edge1": 1, "edgetop": 0xffffffff}[state]
        if sp:
            regs = [(n, spv if n == sp else v) for n, v in regs]
        if state != "edge1":
            pc = TOP_PC.get(cpu, 0xffff)
    mem = []
    if pc == PCV:
        # the image is visible whether the simulator fetches at pc, pc*2 or pc*8
        mem = [(PCV, img), (PCV * 2, img), (PCV * 8, img)]
    else:
        mem = [(pc, img)]
        if cpu not in BITS32:
            room = (0x10000 - pc) if pc < 0x10000 else 1
            mem.append((0, img[room:] if room < len(img) else b"\0"))
            if cpu in ("avr8", "f100_l"):
                mem.append(((pc * 2) & 0xffffffff, img))
    regs = [("pc", pc)] + regs
    return regs, mem, show


def run_case(vd, cpu, pat, combo):
    regs, mem, show = make_request(cpu, pat, combo)
    r = vd.sim(cpu, regs, mem, REGS[cpu], steps=1, show=show)
    return r


FACETS = ("rc", "exit", "exitcode", "regs", "diff", "dump", "runout")


def differ(a, b):
    # the driver's exit-code cell keeps the value of an earlier exit(); it only means something when exit was called
    return [f for f in FACETS if a[f] != b[f] and not (f == "exitcode" and not (a["exit"] or b["exit"]))]


def judge_single(cpu, r):
    """Events visible in one response."""
    ev = []
    if r["exit"]:
        if cpu in BITS32 and (0xffffffff in r["diff"] or r["exitcode"] == 0):
            ev.append(("masked-exit", None, None))
        else:
            ev.append(("viol", "%s/exit-without-break_io" % cpu,
                       "exit(%d) called from inside a step although no break_io address is configured" % r["exitcode"]))
    return ev


def crash_key(cpu, ci):
    if ci["kind"] == "hang":
        return "%s/hang" % cpu
    if ci["kind"] == "san":
        p = ci["sig"].split("/")
        return "%s/%s/%s" % (cpu, p[0], p[1] if len(p) > 1 else "?")
    return "%s/%s" % (cpu, ci["sig"])


_FAST = None
_SYM = None
_KEYCACHE = {}
RAW_RE = re.compile(r"#0 0x[0-9a-f]+\s+\((\S+?)\+(0x[0-9a-f]+)\)")
UB_RE = re.compile(r"(\S+?:\d+):\d+: runtime error")


def drivers():
    """(fast worker whose sanitizer reports are not symbolised, symbolising worker used once per distinct crash site)"""
    global _FAST, _SYM
    if _FAST is None:
        env = {"ASAN_OPTIONS": proc.ASAN_ENV.replace("symbolize=1", "symbolize=0"),
               "UBSAN_OPTIONS": proc.UBSAN_ENV + ":symbolize=0"}
        _FAST = driver.Vdrv(core.ARTS["san"]["vdrv"], timeout_cpu=STEP_CPU_S, env_extra=env)
        _SYM = driver.Vdrv(core.ARTS["san"]["vdrv"], timeout_cpu=STEP_CPU_S)
    return _FAST, _SYM


def resolve_crash(cpu, pat, combo, e, ci):
    """Key of a death seen on the fast worker; sanitizer deaths are symbolised by re-executing the case once per
    distinct raw crash site (kind + frame-0 offset, or UBSan file:line)."""
    if ci["kind"] != "san":
        return crash_key(cpu, ci), ci
    m = UB_RE.search(e.stderr) or RAW_RE.search(e.stderr)
    raw = None if m is None else (cpu, ci["sig"].split("/")[0], m.group(1) if m.re is UB_RE else m.group(2))
    if m is not None and raw in _KEYCACHE:
        return _KEYCACHE[raw], ci
    sym = drivers()[1]
    sym.close()
    try:
        run_case(sym, cpu, pat, combo)
    except driver.Died as e2:
        ci2 = core.crash_info(e2)
        sym.close()
        if ci2["kind"] == "san":
            k = crash_key(cpu, ci2)
            if m is not None:
                _KEYCACHE[raw] = k
            return k, ci2
    sym.close()
    return None, ci      # the death did not repeat on the symbolising worker


def chunk_item(item):
    """item = (cpu, [(pat, combo), ...]); returns aggregated observations."""
    cpu, cases = item
    vd = drivers()[0]
    vd.close()                       # always start on a fresh worker (static state of earlier chunks)
    vd.set_timeout(STEP_CPU_S)
    out = {"cpu": cpu, "n": 0, "requests": 0, "events": {}, "inconc": [], "classes": set(), "outcomes": set(),
           "rc": {}, "masked_exit": 0, "badreg": 0, "fresh_compared": 0, "restarts": 0, "skipped_after_hangs": 0,
           "sample": None, "executed": 0}

    def event(key, pat, combo, desc):
        e = out["events"].get(key)
        inst = "c%02x" % cbyte(cpu, pat)
        if e is None:
            e = out["events"][key] = {"count": 0, "inst": {}, "desc": desc}
        e["count"] += 1
        if inst not in e["inst"]:
            e["inst"][inst] = ({"cpu": cpu, "pattern": pat, "combo": combo}, desc)

    first_results = {}
    hangs = 0
    deaths = {}
    for idx, (pat, combo) in enumerate(cases):
        if hangs >= MAX_HANGS_PER_CHUNK or deaths.get((cbyte(cpu, pat), combo), 0) >= MAX_DEATHS_PER_CLASS:
            out["skipped_after_hangs"] += 1
            continue
        out["n"] += 1
        rs = []
        died = False
        for rep in (0, 1):
            try:
                out["requests"] += 1
                rs.append(run_case(vd, cpu, pat, combo))
            except driver.Died as e:
                ci = core.crash_info(e)
                out["restarts"] += 1
                died = True
                deaths[(cbyte(cpu, pat), combo)] = deaths.get((cbyte(cpu, pat), combo), 0) + 1
                if ci["kind"] in ("inconclusive", "lost"):
                    out["inconc"].append((ci["sig"], pat, combo))
                else:
                    if ci["kind"] == "hang" or "rss-limit" in ci["sig"] or "oom" in ci["sig"]:
                        hangs += 1       # slow deaths (2 CPU-s / 3 GB each): bounded per chunk
                        ckey = crash_key(cpu, ci)
                    else:
                        ckey, ci = resolve_crash(cpu, pat, combo, e, ci)
                    if ckey is None:
                        event("%s/nondeterministic" % cpu, pat, combo,
                              "%s: bytes %04x combo %d: died (%s) but did not when executed again on a fresh worker" % (cpu, pat, combo, ci["sig"]))
                        break
                    event(ckey, pat, combo,
                          "%s: bytes %04x combo %d (%s): %s%s" % (cpu, pat, combo, "/".join(map(str, COMBOS[combo])), ci["sig"],
                                                                " (only when repeated)" if rep else ""))
                    if rep:
                        event("%s/nondeterministic" % cpu, pat, combo,
                              "%s: bytes %04x combo %d: the repetition died (%s), the first execution did not" % (cpu, pat, combo, ci["sig"]))
                break
        if died:
            continue
        a, b = rs
        if a["badreg"] or b["badreg"]:
            out["badreg"] += 1
            continue
        out["rc"][a["rc"]] = out["rc"].get(a["rc"], 0) + 1
        for kind, key, desc in judge_single(cpu, a):
            if kind == "masked-exit":
                out["masked_exit"] += 1
            else:
                event(key, pat, combo, "%s: bytes %04x combo %d: %s" % (cpu, pat, combo, desc))
        d = differ(a, b)
        if d:
            event("%s/nondeterministic" % cpu, pat, combo,
                  "%s: bytes %04x combo %d: the same step repeated from the same state in the same process differs in %s "
                  "(first: rc=%d %r; second: rc=%d %r)" % (cpu, pat, combo, "+".join(d), a["rc"], a["runout"][-60:], b["rc"], b["runout"][-60:]))
            vd.close()               # static state: do not let it leak into the following cases
            out["restarts"] += 1
        else:
            out["classes"].add((cbyte(cpu, pat), combo))
            if len(out["outcomes"]) < 64:
                out["outcomes"].add(zlib.crc32((a["dump"] + str(a["rc"]) + str(sorted(a["diff"].items()))).encode()))
            if a["rc"] == 0 and not a["exit"]:
                out["executed"] += 1
            if out["sample"] is None and a["rc"] == 0 and a["diff"]:
                out["sample"] = {"cpu": cpu, "pattern": "%04x" % pat, "combo": COMBOS[combo], "rc": a["rc"],
                                 "memory_diff": {("%x" % k): v for k, v in list(a["diff"].items())[:4]},
                                 "regs": dict(list(a["regs"].items())[:6])}
        if idx % FRESH_STRIDE == 0:
            first_results[idx] = a
    # third execution on a fresh worker
    vd.close()
    for idx in sorted(first_results):
        pat, combo = cases[idx]
        try:
            out["requests"] += 1
            c = run_case(vd, cpu, pat, combo)
        except driver.Died as e:
            ci = core.crash_info(e)
            out["restarts"] += 1
            if ci["kind"] in ("inconclusive", "lost"):
                out["inconc"].append((ci["sig"], pat, combo))
            else:
                event("%s/nondeterministic" % cpu, pat, combo,
                      "%s: bytes %04x combo %d: died on a fresh worker (%s) but not before" % (cpu, pat, combo, ci["sig"]))
            continue
        out["fresh_compared"] += 1
        d = differ(first_results[idx], c)
        if d:
            event("%s/nondeterministic" % cpu, pat, combo,
                  "%s: bytes %04x combo %d: result on a fresh worker process differs in %s from the result in a worker "
                  "that had executed other steps before" % (cpu, pat, combo, "+".join(d)))
            vd.close()
    vd.close()
    return out


# ------------------------------------------------------------------ domain

def stratified(rng, per=1):
    """every first byte x `per` second bytes and every second byte x `per` first bytes"""
    pats = set()
    for b in range(256):
        for k in range(per):
            pats.add((b << 8) | rng.getrandbits(8))
            pats.add((rng.getrandbits(8) << 8) | b)
    return sorted(pats)


def build_items(run, sims):
    quick = run.tier == "quick"
    items = []
    chunk = 512
    for cpu in sims:
        strat = stratified(random.Random(run.rng.getrandbits(32)), 1 if quick else 4)
        cases = []
        if quick:
            for c in QUICK_COMBOS:
                cases += [(p, c) for p in strat]
        else:
            for c in FULL_COMBOS:
                cases += [(p, c) for p in range(65536)]
            for c in SPARSE_COMBOS:
                cases += [(p, c) for p in strat]
        cases.sort(key=lambda pc: (pc[1], cbyte(cpu, pc[0]), pc[0]))
        for i in range(0, len(cases), chunk):
            items.append((cpu, cases[i:i + chunk]))
    run.rng.shuffle(items)           # spread slow simulators over the workers
    return items


def consume(run, r, stats):
    cpu = r["cpu"]
    st = stats.setdefault(cpu, {"steps": 0, "requests": 0, "classes": set(), "outcomes": set(), "rc": {}, "masked_exit": 0,
                                "fresh_compared": 0, "restarts": 0, "events": {}, "skipped_after_hangs": 0, "executed": 0})
    run.count(r["n"])
    st["steps"] += r["n"]
    for k in ("requests", "masked_exit", "fresh_compared", "restarts", "skipped_after_hangs", "executed"):
        st[k] += r[k]
    st["classes"] |= r["classes"]
    st["outcomes"] |= r["outcomes"]
    for k, v in r["rc"].items():
        st["rc"][k] = st["rc"].get(k, 0) + v
    for c in r["classes"]:
        run.nt((cpu,) + c)
    if r["badreg"]:
        run.harness_errors.append("%s: set_reg rejected a register name of the table (%d requests)" % (cpu, r["badreg"]))
    for sig, pat, combo in r["inconc"]:
        run.inconc(sig, {"cpu": cpu, "pattern": pat, "combo": combo})
    if r["sample"] and len(run.samples) < 6 and not any(s["cpu"] == cpu for s in run.samples):
        run.sample(r["sample"])
    for key, e in r["events"].items():
        st["events"][key] = st["events"].get(key, 0) + e["count"]
        for inst, (w, desc) in e["inst"].items():
            run.violation(key, w, desc, instance=None)
        v = run.viol.get(re_key(key))
        if v is not None:
            v["count"] += e["count"] - len(e["inst"])


def re_key(key):
    import re
    return re.sub(r"\s+", "_", key)


def main(run):
    run.build("san")
    vd = driver.Vdrv(core.ARTS["san"]["vdrv"])
    avail = [c["name"] for c in vd.cpus() if c["sim"]]
    # the register table must be accepted by every simulator (harness self-check)
    bad = []
    for cpu in SIMS + EXTRA_THOROUGH:
        if cpu not in avail:
            continue
        try:
            r = vd.sim(cpu, [(n, 1) for n in REGS[cpu]], [(0, b"\0")], REGS[cpu], steps=0)
            if r["badreg"]:
                bad.append(cpu)
        except driver.Died:
            bad.append(cpu)
    vd.close()
    run.require("the 15 simulators are present in the driver", all(s in avail for s in SIMS))
    run.require("every register name of the table is accepted by set_reg (rejected for: %s)" % bad, not bad)
    sims = [s for s in SIMS if s in avail]
    if run.tier != "quick":
        sims += [s for s in EXTRA_THOROUGH if s in avail]
    items = build_items(run, sims)
    stats = {}
    for r in core.pmap(chunk_item, items, chunk=1):
        if run.handle_common(r):
            continue
        if "_crash" in r:
            run.inconc("chunk lost: " + r["_crash"]["sig"], None)
            continue
        consume(run, r, stats)
    run.cov["per_simulator"] = {
        cpu: {"steps": st["steps"], "requests": st["requests"], "returned_rc": {str(k): v for k, v in sorted(st["rc"].items())},
              "steps_executed_rc0": st["executed"],
              "opcode_class_x_combo_compared": len(st["classes"]), "distinct_outcomes_seen(cap 64/chunk)": len(st["outcomes"]),
              "masked_exit_at_0xffffffff": st["masked_exit"], "compared_on_fresh_worker": st["fresh_compared"],
              "worker_restarts": st["restarts"], "skipped_after_hangs": st["skipped_after_hangs"],
              "events": dict(sorted(st["events"].items()))}
        for cpu, st in sorted(stats.items())}
    run.cov["combos"] = {str(k): "tail=%s state=%s show=%d" % v for k, v in COMBOS.items()}
    run.exhaustive = run.tier != "quick"
    run.cov["exhaustive_note"] = ("thorough: exhaustive over the leading 16 bits for combos %s only; quick: stratified sample" % FULL_COMBOS)
    run.assumptions = [
        "one step = Simulate::run(-1, 1) on a simulator object created by the cpu_list factory, reset(), set_pc/set_reg; "
        "register state is limited to the names set_reg() accepts (flags only through status registers where settable)",
        "exit() on mips/riscv/ebpf with a byte stored at 0xffffffff (or exit code 0) is the documented break_io sentinel and is masked",
        "the instruction image is placed at pc, 2*pc and 8*pc; memory elsewhere is zero except the page wrap copy at 0",
        "PC-after-step versus disassembler length and 'writes above the architectural address space inside the Memory image' are NOT judged",
        "a chunk stops executing after %d hangs, and the remaining patterns of an (opcode class byte, combo) are skipped after the worker died twice in it inside a chunk (deaths cost 0.04-0.3 s each); both counted as skipped_after_hangs" % MAX_HANGS_PER_CHUNK,
        "the value returned by run() is recorded (returned_rc) but not judged: riscv returns -2 for some encodings",
        "known findings are keyed simulator/kind/function without instance catalogues: a further defect with the same key is not told apart",
    ]
    run.require("every simulator swept", all(s in stats and stats[s]["steps"] > 0 for s in sims))
    run.require("at least 12 simulators showed 8 or more distinct outcomes (the sweep really executes different instructions)",
                sum(1 for s in sims if len(stats.get(s, {"outcomes": ()})["outcomes"]) >= 8) >= 12)
    run.require("every simulator executed steps with rc 0", all(stats.get(s, {"executed": 0})["executed"] > 0 for s in sims))
    run.require("fresh-worker comparisons happened", sum(st["fresh_compared"] for st in stats.values()) > 100)
    return run.finish(lambda cs: replay_keys(run, cs))


def replay_keys(run, cases):
    out = []
    for c in cases:
        keys = set()
        try:
            r = chunk_item((c["cpu"], [(int(c["pattern"]), int(c["combo"]))]))
            keys = set(re_key(k) for k in r["events"])
        except Exception:
            pass
        out.append(keys)
    return out


def replay_cli(doc, seed):
    run = core.Run(PID, "quick", seed, RULE)
    run.build("san")
    keys = replay_keys(run, [doc.get("case", doc)])[0]
    if keys:
        print("VIOLATION property=C15 replay=- keys=%s" % sorted(keys))
        return 1
    print("replay: no violation")
    return 0
