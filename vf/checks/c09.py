"""C09 - macros, defines, equ, repeat and include are transparent text abstractions.

Monitor: metamorphic pairs.  The generator builds a program as a tree (statements from the
instruction corpus and data directives with unique marker values, labels, macro calls,
define/equ uses, include files, repeat blocks) and renders it twice:

  P  - with the abstractions (.define/#define with and without parameters, `name equ text`,
       `.equ name = token`, `.macro name(p1..pk)` ... `.endm` with nested calls, `.include`
       of generated files, `.repeat n`), and
  P' - with every substitution/inclusion performed by hand (pure text substitution of the
       argument text for the parameter word, no parentheses added), `.repeat n` replaced by
       the body followed by n-1 literal `.db` copies of the bytes the body assembled to.

Both are assembled by the real assembler (in-process sanitizer build; a sample through the
real CLI with real include files and Intel-HEX output) and the images and label addresses
are compared.
"""
import os
import random
import re
import shutil
import tempfile

from .. import core, driver, proc
from ..fmt import decode
from ..gen import corpus

RULE = ("seeded random programs over msp430/z80/mips/avr8/6502/arm (corpus instructions that assemble stand-alone, "
        ".db/.dw/.dc32/.ascii with unique marker values, labels, label references and branches) wrapped in "
        ".define/#define (plain, chained, with parameters), `name equ text`, `.equ name = tok`, .macro/.endm with 0..12 "
        "parameters (expression / register / quoted-string / label arguments, pass-through of outer parameters, nesting "
        "depth 1..8, calls on the line of a label, before a label), .include (nested <= 4, definitions inside includes), "
        ".repeat n (n <= 50, body with macro calls); each program is rendered with the abstractions and hand-expanded, "
        "both are assembled and images + label addresses compared (repeat: byte replication of the first iteration). "
        "distinct_nontrivial = distinct (cpu, wrapping-feature set) of pairs that assembled on both sides, where the "
        "feature set names the abstractions used, nesting depth, parameter counts and parameter kinds.")

CPUS = {"msp430": (0x8000, 1), "z80": (0x100, 1), "mips": (0x1000, 1), "avr8": (0x100, 2), "6502": (0x600, 1),
        "arm": (0x1000, 1)}
BRANCH = {"msp430": "jmp %s", "z80": "jp %s", "mips": "j %s", "avr8": "rjmp %s", "6502": "jmp %s", "arm": "b %s"}
WORD_RE = re.compile(r"[A-Za-z0-9_]+")
PARAM_POOL = ["a", "b", "k", "n", "r", "v", "x", "p1", "p2", "vv", "reg", "val", "arg", "dst", "src_", "t", "q", "m", "w", "cnt",
              "lo_", "hi_", "z9", "e", "s"]
STR_CHARS = "ABCDEFGHJKLMNPQRSTUVWXYZ0123456789 ,()+-*#.:"
TMP_ROOT = os.path.join(core.VERIF, ".work", "tmp")


def tool_words(text):
    """identifier candidates as core/Macros.cpp macros_parse() scans them: in every run of [A-Za-z0-9_] the part
    that starts at the first letter."""
    out = set()
    for m in WORD_RE.finditer(text):
        w = m.group(0)
        i = 0
        while i < len(w) and not w[i].isalpha():
            i += 1
        while i < len(w):
            # a word ends only at a non-word character, so the candidate is the whole rest of the run
            out.add(w[i:])
            break
    return out


# ------------------------------------------------------------------ segments

def fixed_text(segs, acc):
    for s in segs:
        if isinstance(s, str):
            acc.append(s)
        elif s[0] == "D":
            acc.append(s[1]["name"])
        elif s[0] == "F":
            acc.append(s[1]["name"])
            for a in s[2]:
                fixed_text(a, acc)
    return acc


def rp(segs):
    out = []
    for s in segs:
        if isinstance(s, str):
            out.append(s)
        elif s[0] == "P":
            out.append(s[1])
        elif s[0] == "D":
            out.append(s[1]["name"])
        else:
            out.append("%s(%s)" % (s[1]["name"], s[3].join(rp(a) for a in s[2])))
    return "".join(out)


def rq(segs, env):
    out = []
    for s in segs:
        if isinstance(s, str):
            out.append(s)
        elif s[0] == "P":
            out.append(env[s[1]])
        elif s[0] == "D":
            out.append(rq(s[1]["value"], {}))
        else:
            f = s[1]
            out.append(rq(f["value"], {p: rq(a, env) for p, a in zip(f["params"], s[2])}))
    return "".join(out)


# ------------------------------------------------------------------ generator

class Gen(object):
    def __init__(self, rng, cpu, templates):
        self.rng = rng
        self.cpu = cpu
        self.org, self.bpa = CPUS[cpu]
        self.templates = templates
        self.feat = set()
        self.uid = 0
        self.marker = rng.randint(1, 200)
        self.prelude = []      # definition lines (P only), creation order
        self.defines = []
        self.fdefs = []
        self.macros = []
        self.labels = []       # all labels that will exist (for references)
        self.files = {}
        self.nrep = 0
        self.reps = []

    def nid(self):
        self.uid += 1
        return self.uid

    def mark(self, bits=8):
        self.marker = (self.marker * 73 + 41) % 65521
        return self.marker & ((1 << bits) - 1)

    # -- operands
    def const_expr(self, bits=8):
        r = self.rng.random()
        v = self.mark(bits)
        if r < 0.45:
            return "%d" % v
        if r < 0.7:
            return "0x%x" % v
        a = self.rng.randint(0, v)
        if r < 0.85:
            return "%d+%d" % (a, v - a)
        if r < 0.93:
            return "(%d+%d)" % (a, v - a)
        return "%d*2+%d" % (v // 2, v % 2)

    def string(self):
        n = self.rng.randint(1, 6)
        s = "".join(self.rng.choice(STR_CHARS) for _ in range(n))
        if self.bpa == 2 and len(s) % 2:
            s += "Z"
        return '"%s"' % s

    def expr_segs(self, env_params, bits=8, depth=0):
        """an expression operand: constant, define/equ use, function-like define call or an enclosing parameter."""
        r = self.rng.random()
        ps = [p for p, k in env_params if k == "expr"]
        if ps and r < 0.45:
            return [("P", self.rng.choice(ps))]
        if r < 0.60 and depth < 2:
            d = self.get_define(bits)
            return [("D", d)]
        if r < 0.72 and depth < 2:
            f = self.get_fdef()
            args = [self.expr_segs(env_params, 4, depth + 1) for _ in f["params"]]
            return [("F", f, args, self.rng.choice([",", ", ", " , "]))]
        return [self.const_expr(bits)]

    def get_define(self, bits):
        if self.defines and self.rng.random() < 0.5:
            return self.rng.choice(self.defines)
        style = self.rng.choice(["define", "pdefine", "equ", "dotequ", "chain"])
        name = "%s%d" % (self.rng.choice(["k", "n", "vv", "KQ", "t_", "DEF"]), self.nid())
        if style == "chain" and self.defines:
            inner = self.rng.choice(self.defines)
            value = [("D", inner), "+0"]
            self.prelude.append("%s %s %s" % (self.rng.choice([".define", "#define"]), name, rp(value)))
            self.feat.add("define-chain")
        else:
            if style == "chain":
                style = "define"
            v = self.const_expr(min(bits, 7))
            if style == "dotequ":
                v = "%d" % self.mark(min(bits, 7))
            value = [v]
            if style == "define":
                self.prelude.append(".define %s %s" % (name, v))
            elif style == "pdefine":
                self.prelude.append("#define %s %s" % (name, v))
            elif style == "equ":
                self.prelude.append("%s equ %s" % (name, v))
            else:
                self.prelude.append(".equ %s = %s" % (name, v))
            self.feat.add(style)
        d = {"name": name, "value": value}
        self.defines.append(d)
        return d

    def get_fdef(self):
        if self.fdefs and self.rng.random() < 0.5:
            return self.rng.choice(self.fdefs)
        k = self.rng.randint(1, 3)
        name = "FN%d" % self.nid()
        params = self.pick_params(k, [name])
        forms = {1: ["(%s+1)", "%s", "(%s)*2", "1+%s"], 2: ["(%s+%s)", "%s+%s*2", "(%s|%s)"], 3: ["(%s+%s+%s)", "%s*%s+%s"]}
        form = self.rng.choice(forms[k])
        parts = form.split("%s")
        value = [parts[0]]
        for p, rest in zip(params, parts[1:]):
            value.append(("P", p))
            value.append(rest)
        self.prelude.append("%s %s(%s) %s" % (self.rng.choice([".define", "#define"]), name, ",".join(params), rp(value)))
        f = {"name": name, "params": params, "value": value}
        self.fdefs.append(f)
        self.feat.add("define-params%d" % k)
        return f

    def pick_params(self, k, fixed_texts):
        bad = set()
        for t in fixed_texts:
            bad |= tool_words(t)
        pool = [p for p in PARAM_POOL if p not in bad]
        self.rng.shuffle(pool)
        out = pool[:k]
        while len(out) < k:
            out.append("pq%d_" % self.nid())
        return out

    # -- statements: each returns segs for one source line
    def stmt(self, env_params):
        r = self.rng.random()
        if r < 0.40 and self.templates:
            return self.ins_stmt(env_params)
        if r < 0.50 and self.labels:
            lab = self.rng.choice(self.labels)
            ps = [p for p, k in env_params if k == "label"]
            tgt = ("P", self.rng.choice(ps)) if ps and self.rng.random() < 0.7 else lab
            if self.rng.random() < 0.5:
                a, _, b = BRANCH[self.cpu].partition("%s")
                return ["  " + a, tgt, b]
            return ["  .dc32 ", tgt]
        if r < 0.62:
            ps = [p for p, k in env_params if k == "str"]
            s = ("P", self.rng.choice(ps)) if ps and self.rng.random() < 0.8 else self.string()
            if self.rng.random() < 0.5:
                return ["  .ascii ", s]
            return ["  .db ", s, ", ", "%d, %d" % (self.mark(), self.mark())] if self.bpa == 2 else ["  .db ", s, ", ", "%d" % self.mark()]
        d, bits = self.rng.choice([(".db", 8), (".dw", 16), (".dc32", 16), (".dc16", 16)])
        n = self.rng.randint(1, 4)
        if d == ".db" and self.bpa == 2:
            n = 2 * self.rng.randint(1, 2)
        segs = ["  %s " % d]
        for i in range(n):
            if i:
                segs.append(", ")
            segs += self.expr_segs(env_params, bits)
        return segs

    def ins_stmt(self, env_params):
        text, lits, regs = self.rng.choice(self.templates)
        holes = []
        ep = [p for p, k in env_params if k == "expr"]
        rp_ = [p for p, k in env_params if k == "reg"]
        if lits and self.rng.random() < 0.8:
            s, e = self.rng.choice(lits)
            if ep and self.rng.random() < 0.6:
                holes.append((s, e, ("P", self.rng.choice(ep)), "lit"))
            elif self.want_defs and self.rng.random() < 0.5:
                holes.append((s, e, None, "litdef"))
        if regs and rp_ and self.rng.random() < 0.8:
            s, e = self.rng.choice(regs)
            if not any(s < he and hs < e for hs, he, _, _ in holes):
                holes.append((s, e, ("P", self.rng.choice(rp_)), "reg"))
        holes.sort()
        segs, pos, binds = ["  "], 0, {}
        for s, e, seg, kind in holes:
            segs.append(text[pos:s])
            orig = text[s:e]
            if kind == "litdef":
                # a fresh define standing for the literal
                name = "%s%d" % (self.rng.choice(["k", "LIT", "n"]), self.nid())
                style = self.rng.choice([".define %s %s", "#define %s %s", "%s equ %s"])
                self.prelude.append(style % (name, orig))
                self.feat.add({".": "define", "#": "pdefine", "%": "equ"}[style[0]])
                d = {"name": name, "value": [orig]}
                self.defines.append(d)
                segs.append(("D", d))
            else:
                segs.append(seg)
                binds.setdefault(seg[1], (kind, orig))
            pos = e
        segs.append(text[pos:])
        self.binds = binds
        return segs

    # -- macros
    def make_macro(self, depth, allow_repeat=True):
        """create a macro whose calls nest `depth` levels deep (depth 1 = no inner call)."""
        k = self.rng.choice([0, 1, 1, 2, 2, 3, 3, 4, 5, 7, 9, 10, 12])
        if depth > 1 and k == 0:
            k = 2
        kinds = []
        for _ in range(k):
            kinds.append(self.rng.choice(["expr", "expr", "expr", "reg", "str", "label"]))
        inner = self.make_macro(depth - 1, allow_repeat) if depth > 1 else None
        name = "%s%d" % (self.rng.choice(["MAC", "put", "m_", "Op"]), self.nid())
        # body first with placeholder parameter names, then choose real names that do not collide with body words
        ph = ["\x02%d\x02" % i for i in range(k)]
        env = list(zip(ph, kinds))
        body = []     # ("line", segs) | ("call", macro, args)
        defaults = {}
        nlines = self.rng.randint(1, 4)
        call_at = self.rng.randint(0, nlines) if inner else -1
        for i in range(nlines + 1):
            if i == call_at:
                args = []
                for ip, (pn, pk) in enumerate(inner["params"]):
                    cand = [p for p, kk in env if kk == pk]
                    if cand and self.rng.random() < 0.6:
                        p = self.rng.choice(cand)
                        if pk == "expr" and self.rng.random() < 0.4:
                            args.append([("P", p), "+%d" % self.rng.randint(0, 3)])
                        else:
                            args.append([("P", p)])
                        if inner["defaults"].get(pn):
                            defaults.setdefault(p, inner["defaults"][pn])
                    else:
                        args.append(self.arg_for(pk, inner["defaults"].get(pn), env))
                body.append(("call", inner, args))
            if i < nlines:
                self.binds = {}
                segs = self.stmt(env)
                for p, b in self.binds.items():
                    defaults.setdefault(p, b)
                body.append(("line", segs))
        has_repeat = bool(inner and inner["has_repeat"])
        li = [i for i, b in enumerate(body) if b[0] == "line"]
        if self.want_repeat and allow_repeat and li and self.rng.random() < 0.3:
            # a .repeat block inside the macro body around one or two consecutive statement lines
            i = self.rng.choice(li)
            j = i + 1 if i + 1 in li and self.rng.random() < 0.5 else i
            body.insert(j + 1, ("rep_end",))
            body.insert(i, ("rep_begin", self.rng.choice([1, 2, 3, 4, 8])))
            has_repeat = True
            self.feat.add("repeat-in-macro")
        if self.want_incmac and self.rng.random() < 0.6:
            # an .include inside the macro body (the file cannot refer to the parameters)
            fn = "mi%d.inc" % self.nid()
            fl_p, fl_q = [], []
            for _ in range(self.rng.randint(1, 2)):
                segs = self.stmt([])
                fl_p.append(rp(segs))
                fl_q.append(rq(segs, {}))
            self.files[fn] = fl_p
            body.insert(self.rng.randint(0, len(body)), ("include", fn, fl_q))
            self.feat.add("include-in-macro")
        acc = [name]
        for b in body:
            if b[0] in ("rep_begin", "rep_end", "include"):
                continue
            if b[0] == "line":
                fixed_text(b[1], acc)
            else:
                acc.append(b[1]["name"])
                for a in b[2]:
                    fixed_text(a, acc)
        params = self.pick_params(k, [re.sub(r"\x02\d+\x02", " ", t) for t in acc])
        ren = dict(zip(ph, params))

        def rename(segs):
            out = []
            for s in segs:
                if isinstance(s, str):
                    out.append(s)
                elif s[0] == "P":
                    out.append(("P", ren.get(s[1], s[1])))
                elif s[0] == "F":
                    out.append(("F", s[1], [rename(a) for a in s[2]], s[3]))
                else:
                    out.append(s)
            return out
        body2 = []
        for b in body:
            if b[0] in ("rep_begin", "rep_end", "include"):
                body2.append(b)
            elif b[0] == "line":
                body2.append(("line", rename(b[1])))
            else:
                body2.append(("call", b[1], [rename(a) for a in b[2]]))
        m = {"name": name, "params": list(zip(params, kinds)), "body": body2, "depth": depth,
             "defaults": {ren[p]: v for p, v in defaults.items()}, "has_repeat": has_repeat}
        # definition text
        if k:
            sep = self.rng.choice([",", ", "])
            head = ".macro %s(%s)" % (name, sep.join(params))
        else:
            head = ".macro %s" % name
        lines = [head]
        for b in body2:
            if b[0] == "rep_begin":
                lines.append(".repeat %d" % b[1])
            elif b[0] == "rep_end":
                lines.append(".endr")
            elif b[0] == "include":
                lines.append('  .include "%s"' % b[1])
            elif b[0] == "line":
                lines.append(rp(b[1]))
            else:
                lines.append("  " + self.call_text(b[1], b[2]))
        lines.append(".endm")
        self.prelude.extend(lines)
        self.macros.append(m)
        self.feat.add("macro-params%d" % k)
        self.feat.add("macro-depth%d" % depth)
        for kk in kinds:
            self.feat.add("param-" + kk)
        return m

    def arg_for(self, kind, default, env):
        """argument segs of the given kind; `default` = (what, original text) when the parameter stands in an
        instruction operand position (keep the original so that the instruction stays valid)."""
        if kind == "expr":
            if default:
                o = default[1]
                return [self.rng.choice([o, o, o + "+0", "0+" + o])]
            return self.expr_segs(env, 7, 1)
        if kind == "reg":
            if default:
                return [default[1]]
            return [{"msp430": "r9", "z80": "b", "mips": "$t1", "avr8": "r17", "6502": "0x10", "arm": "r3"}[self.cpu]]
        if kind == "str":
            return [self.string()]
        if self.labels:
            return [self.rng.choice(self.labels)]
        return ["0x%x" % self.org]

    def call_text(self, m, args):
        if not m["params"]:
            return m["name"]
        sp = self.rng.choice(["", "", " "])
        sep = self.rng.choice([",", ", ", ",  "])
        return "%s%s(%s%s)" % (m["name"], sp, self.rng.choice(["", " "]), sep.join(rp(a) for a in args))

    def expand(self, m, args, env, out):
        env2 = {p: rq(a, env) for (p, _), a in zip(m["params"], args)}
        for b in m["body"]:
            if b[0] == "rep_begin":
                self.rep_open = (self.nrep, b[1])
                out.append("RS_%d_:" % self.nrep)
                self.nrep += 1
            elif b[0] == "rep_end":
                k, cnt = self.rep_open
                out.append("RE_%d_:" % k)
                out.append(";@@REP %d %d@@" % (k, cnt))
                self.reps.append([k, cnt])
            elif b[0] == "include":
                out.extend(b[2])
            elif b[0] == "line":
                out.append(rq(b[1], env2))
            else:
                self.expand(b[1], b[2], env2, out)

    # -- blocks
    def block(self, n, P, Q, level, in_repeat=False):
        """append n items to the P and Q line lists."""
        for _ in range(n):
            r = self.rng.random()
            if r < 0.12 and not in_repeat:
                lab = self.labels_iter.pop() if self.labels_iter else None
                if lab:
                    if self.rng.random() < 0.4 and self.macros:
                        # macro invoked on the line of a label
                        m = self.rng.choice(self.macros)
                        args = [self.arg_for(k, m["defaults"].get(p), []) for p, k in m["params"]]
                        P.append("%s: %s" % (lab, self.call_text(m, args)))
                        Q.append("%s:" % lab)
                        self.expand(m, args, {}, Q)
                        self.feat.add("call-on-label-line")
                    else:
                        if getattr(self, "last_call", None) is P and P and P[-1] == self.last_call_line:
                            self.feat.add("call-before-label")
                        P.append("%s:" % lab)
                        Q.append("%s:" % lab)
                    continue
            if r < 0.45 and self.want_macro:
                usable = [m for m in self.macros if not (in_repeat and m["has_repeat"])]
                if usable and self.rng.random() < 0.6:
                    m = self.rng.choice(usable)
                else:
                    m = self.make_macro(self.rng.choice([1, 1, 2, 2, 3, 4, 6, 8]), not in_repeat)
                args = [self.arg_for(k, m["defaults"].get(p), []) for p, k in m["params"]]
                P.append("  " + self.call_text(m, args))
                self.last_call, self.last_call_line = P, P[-1]
                self.expand(m, args, {}, Q)
                continue
            if r < 0.52 and self.want_include and level < 4 and not in_repeat:
                fn = "inc%d.inc" % self.nid()
                fp = []
                self.block(self.rng.randint(1, 4), fp, Q, level + 1)
                self.files[fn] = fp
                P.append('.include "%s"' % fn)
                self.feat.add("include-depth%d" % (level + 1))
                continue
            if r < 0.58 and self.want_repeat and not in_repeat and self.nrep < 3:
                cnt = self.rng.choice([1, 2, 2, 3, 3, 4, 5, 8, 16, 50])
                k = self.nrep
                self.nrep += 1
                P.append(".repeat %d" % cnt)
                Q.append("RS_%d_:" % k)
                self.block(self.rng.randint(1, 3), P, Q, level, in_repeat=True)
                P.append(".endr")
                Q.append("RE_%d_:" % k)
                Q.append(";@@REP %d %d@@" % (k, cnt))
                self.reps.append([k, cnt])
                self.feat.add("repeat" if cnt > 1 else "repeat1")
                continue
            segs = self.stmt([])
            line = rp(segs)
            P.append(line)
            Q.append(rq(segs, {}))

    def program(self):
        rng = self.rng
        kinds = rng.choice([("macro",), ("macro",), ("defs",), ("macro", "defs"), ("include",), ("repeat",), ("macro", "include"),
                            ("macro", "repeat"), ("defs", "include"), ("macro", "defs", "include", "repeat"), ("defs", "repeat")]
                           + ([("macro", "incmac")] if rng.random() < 0.25 else []))
        self.want_macro = "macro" in kinds
        self.want_defs = "defs" in kinds
        self.want_include = "include" in kinds
        self.want_repeat = "repeat" in kinds
        self.want_incmac = "incmac" in kinds
        nl = rng.randint(1, 5)
        self.labels = ["L%d_" % i for i in range(nl)]
        self.labels_iter = list(reversed(self.labels))
        if not self.want_defs:
            # no define/equ uses in operands
            self.expr_segs = lambda env_params, bits=8, depth=0: (
                [("P", rng.choice([p for p, k in env_params if k == "expr"]))]
                if [p for p, k in env_params if k == "expr"] and rng.random() < 0.5 else [self.const_expr(bits)])
        P, Q = [], []
        self.block(rng.randint(4, 14), P, Q, 0)
        # labels not yet placed go at the end, each followed by a marker
        while self.labels_iter:
            lab = self.labels_iter.pop()
            tail = "  .dw 0x%x" % self.mark(16)
            P += ["%s:" % lab, tail]
            Q += ["%s:" % lab, tail]
        table = "  .dc32 " + ", ".join(self.labels)
        P.append(table)
        Q.append(table)
        head = [".%s" % self.cpu, ".org 0x%x" % self.org]
        pre = list(self.prelude)
        files = {k: "\n".join(v) + "\n" for k, v in self.files.items()}
        if pre and self.want_include and rng.random() < 0.5:
            files["defs.inc"] = "\n".join(pre) + "\n"
            pre = ['.include "defs.inc"']
            self.feat.add("definitions-in-include")
        p = "\n".join(head + pre + P) + "\n"
        q = "\n".join(head + Q) + "\n"
        return {"cpu": self.cpu, "p": p, "q": q, "files": files, "reps": self.reps, "labels": self.labels,
                "features": sorted(self.feat)}


def coarse(features):
    out = set()
    if "include-in-macro" in features:
        return "include-in-macro"
    for f in features:
        if f.startswith("macro-depth"):
            out.add("macro" if f == "macro-depth1" else "nested-macro")
        elif f.startswith("define-params"):
            out.add("define-params")
        elif f.startswith("include") or f == "definitions-in-include":
            out.add("include")
        elif f.startswith("repeat"):
            out.add("repeat")
        elif f in ("define", "pdefine", "equ", "dotequ", "define-chain"):
            out.add("define")
    return "+".join(sorted(out)) or "plain"


# ------------------------------------------------------------------ templates

def validate_templates(cpu):
    """corpus lines that assemble stand-alone at two addresses -> [(text, literal spans, register spans)]."""
    vd = core.get_vdrv(20)
    org, bpa = CPUS[cpu]
    lines = corpus.load().get(cpu, [])
    out = []
    seen = set()
    for ln in lines:
        if ":" in ln or ";" in ln or '"' in ln or "'" in ln or ln in seen or len(ln) > 60:
            continue
        seen.add(ln)
        ok = True
        for a in (org, org + 0x600):
            try:
                r = vd.asm(".%s\n.org 0x%x\n  %s\n" % (cpu, a, ln))
            except driver.Died:
                ok = False
                break
            if r["rc"] != 0 or r["exit"] or not r["img"]:
                ok = False
                break
            if bpa == 2 and len(r["img"]) % 2:
                ok = False
        if ok:
            lits = [(m.start(), m.end()) for m in corpus.literals(ln) if not ln[m.start():m.end()].startswith("-")]
            regs = [(m.start(), m.end()) for m in corpus.REG_RE.finditer(ln)]
            out.append((ln, lits, regs))
    return {"cpu": cpu, "templates": out}


# ------------------------------------------------------------------ evaluation

def resolve_repeats(case, vd):
    """replace the repeat placeholders of P' by n-1 literal copies of the bytes its body assembled to.
    -> (source or None, reason)"""
    q0 = case["q"]
    if not case["reps"]:
        return q0, None
    bpa = CPUS[case["cpu"]][1]
    bodies, q = None, q0
    for _ in range(5):
        # label values inside a body may depend on the copies that follow: iterate to the fixpoint
        r = vd.asm(q)
        if r["rc"] != 0 or r["exit"]:
            return None, "plain-rejected"
        syms = {s[0]: s[1] for s in r["syms"]}
        cur = []
        for k, cnt in case["reps"]:
            a, b = syms.get("RS_%d_" % k), syms.get("RE_%d_" % k)
            if a is None or b is None or b < a or (b - a) * bpa > 4096:
                return None, "repeat-markers"
            cur.append([r["img"].get(x, 0) for x in range(a * bpa, b * bpa)])
        if cur == bodies:
            return q, None
        bodies = cur
        q = q0
        for (k, cnt), body in zip(case["reps"], bodies):
            lines = []
            if body:
                lines = ["  .db " + ", ".join("0x%02x" % x for x in body)] * (cnt - 1)
            q = q.replace(";@@REP %d %d@@" % (k, cnt), "\n".join(lines))
    return None, "repeat-no-fixpoint"


def compare(case, rp_, rq_):
    """-> list of (kind, description)"""
    if rq_["rc"] != 0 or rq_["exit"]:
        return None
    if rp_["rc"] != 0 or rp_["exit"]:
        return [("abstraction-rejected", "hand-expanded program assembles, the program with the abstractions is rejected: %s"
                 % rp_["out"].strip()[-160:])]
    viol = []
    a, b = rp_["img"], rq_["img"]
    if a != b:
        if len(a) != len(b):
            d = "image has %d bytes, hand-expanded program %d bytes" % (len(a), len(b))
        else:
            x = min(k for k in set(a) | set(b) if a.get(k) != b.get(k))
            d = "first difference at 0x%x: %s vs hand-expanded %s" % (x, a.get(x), b.get(x))
        viol.append(("image-differs", d))
    sp = {s[0]: s[1] for s in rp_["syms"]}
    sq = {s[0]: s[1] for s in rq_["syms"] if not re.match(r"R[SE]_\d+_$", s[0])}
    if sp != sq:
        names = sorted(n for n in set(sp) | set(sq) if sp.get(n) != sq.get(n))
        viol.append(("label-differs", "label %s = %s, hand-expanded %s" % (names[0], sp.get(names[0]), sq.get(names[0]))))
    return viol


def eval_case(case, vd, cli_exe=None):
    """-> (status, [(key, desc)], info)"""
    d = None
    try:
        q2, why = resolve_repeats(case, vd)
        if q2 is None:
            return why, [], None
        rq_ = vd.asm(q2)
        opts = ""
        if case["files"] or cli_exe:
            os.makedirs(TMP_ROOT, exist_ok=True)
            d = tempfile.mkdtemp(prefix="c09_", dir=TMP_ROOT)
            for fn, text in case["files"].items():
                core.write_tmp(d, fn, text)
            opts = "inc=" + d
        rp_ = vd.asm(case["p"], opts)
        viol = compare(case, rp_, rq_)
        if viol is None:
            return "plain-rejected", [], None
        tag = coarse(case["features"])
        if tag == "include-in-macro":
            # one root cause whatever the symptom (bytes misplaced, or the reordered text no longer assembles)
            keys = [("not-transparent/include-in-macro", "%s: %s" % (k, desc)) for k, desc in viol[:1]]
        else:
            keys = [("%s/%s" % (k, tag), desc) for k, desc in viol[:1]]
        status = "compared"
        if cli_exe and not viol:
            core.write_tmp(d, "p.asm", case["p"])
            core.write_tmp(d, "q.asm", q2)
            imgs = []
            for nm in ("p", "q"):
                o = proc.run([cli_exe, "-type", "hex", "-o", nm + ".hex", nm + ".asm"], cwd=d, cpu_s=10)
                if o.san or o.signal:
                    keys.append(("cli-crash/%s" % (o.san["sig"] if o.san else "signal:%s" % o.signal), "naken_asm %s.asm" % nm))
                    imgs.append(None)
                elif o.wall_killed or o.timed_out:
                    return "inconclusive", [], None
                elif o.status != 0:
                    imgs.append(None)
                    if nm == "p":
                        keys.append(("cli-abstraction-rejected/%s" % tag, "CLI rejects the program that the in-process assembler accepts: %s" % o.stdout[-160:]))
                else:
                    img, meta, errs = decode.ihex(open(os.path.join(d, nm + ".hex"), "rb").read())
                    imgs.append(None if errs else img)
            if imgs[0] is not None and imgs[1] is not None:
                status = "compared-cli"
                if imgs[0] != imgs[1]:
                    keys.append(("cli-image-differs/%s" % tag, "decoded hex files differ (%d vs %d bytes)" % (len(imgs[0]), len(imgs[1]))))
        return status, keys, {"bytes": len(rq_["img"]), "labels": len(rq_["syms"])}
    finally:
        if d:
            shutil.rmtree(d, ignore_errors=True)


def work(item):
    seed, count, cpu, templates, ncli, exe = item
    rng = random.Random(seed)
    vd = core.get_vdrv(20)
    vd.set_timeout(5)
    out = {"n": 0, "stats": {}, "viol": [], "nt": set(), "feat": {}, "sample": None, "inconc": 0}
    for i in range(count):
        try:
            case = Gen(rng, cpu, templates).program()
        except RecursionError:
            continue
        try:
            status, keys, info = eval_case(case, vd, exe if i < ncli else None)
        except driver.Died as e:
            ci = core.crash_info(e)
            if ci["kind"] in ("inconclusive", "lost") or ci["sig"] in ("signal:15", "signal:9"):
                # SIGTERM/SIGKILL come from outside (watchdogs, other users of the machine), never from the assembler
                out["inconc"] += 1
            else:
                out["viol"].append(("crash/%s" % ci["sig"], case, "%s program: %s" % (cpu, ci["sig"])))
            continue
        if status == "inconclusive":
            out["inconc"] += 1
            continue
        out["n"] += 1
        out["stats"][status] = out["stats"].get(status, 0) + 1
        if status.startswith("compared"):
            out["nt"].add((cpu, " ".join(case["features"])))
            for f in case["features"]:
                out["feat"][f] = out["feat"].get(f, 0) + 1
            if out["sample"] is None and len(case["features"]) >= 4:
                out["sample"] = {"cpu": cpu, "features": case["features"], "bytes": info["bytes"], "source": case["p"][:700],
                                 "files": sorted(case["files"])}
        for k, desc in keys:
            out["viol"].append((k, case, "%s: %s | features %s" % (cpu, desc, ",".join(case["features"]))))
    out["nt"] = sorted(out["nt"])
    return out


def main(run):
    run.build("san")
    quick = run.tier == "quick"
    templates = {}
    for r in core.pmap(validate_templates, sorted(CPUS), chunk=1):
        if run.handle_common(r):
            continue
        if "_crash" in r:
            raise core.HarnessFailure("driver died while validating corpus lines: %s" % r["_crash"]["sig"])
        templates[r["cpu"]] = r["templates"]
    run.cov["instruction_templates"] = {c: len(t) for c, t in templates.items()}
    nchunks = 600 if quick else 2000
    per = 25
    exe = core.ARTS["san"]["naken_asm"]
    items = []
    cpus = sorted(CPUS)
    for i in range(nchunks):
        cpu = cpus[i % len(cpus)]
        t = templates.get(cpu, [])
        trng = random.Random(run.seed * 7919 + i)
        sub = trng.sample(t, min(len(t), 60))
        items.append((run.seed * 1000003 + i, per, cpu, sub, 2 if quick else 1, exe))
    stats, feat = {}, {}
    for r in core.pmap(work, items, chunk=1):
        if run.handle_common(r):
            continue
        if "_crash" in r:
            run.inconc("worker lost: %s" % r["_crash"]["sig"])
            continue
        run.count(r["n"])
        for k, v in r["stats"].items():
            stats[k] = stats.get(k, 0) + v
        for k, v in r["feat"].items():
            feat[k] = feat.get(k, 0) + v
        for x in r["nt"]:
            run.nt(tuple(x))
        if r["sample"]:
            run.sample(r["sample"], limit=4)
        for key, case, desc in r["viol"]:
            run.violation(key, case, desc)
        for _ in range(r["inconc"]):
            run.inconc("watchdog")
    run.cov["status_counts"] = stats
    run.cov["feature_counts_in_compared_pairs"] = dict(sorted(feat.items()))
    run.assumptions = [
        "macro parameter names are chosen so that they never equal another identifier-like word of the same body (the tool substitutes "
        "every occurrence of the word, also inside strings); quoted-string arguments contain no ';', '//', quote or backslash",
        "labels are not defined inside macro bodies or repeat bodies; .repeat is not nested and not placed inside macro bodies",
        "repeat oracle: n-1 literal copies of the bytes between the start and the end of the first iteration (DESIGN.md C09 L note)",
        "pairs whose hand-expanded side is rejected by the assembler are not compared (counted as plain-rejected)",
        "avr8 (2 bytes per address): only even-sized data statements are generated"]
    compared = stats.get("compared", 0) + stats.get("compared-cli", 0)
    run.require(">= %d pairs assembled on both sides and compared" % (3000 if quick else 20000), compared >= (3000 if quick else 20000))
    run.require("real-CLI comparisons with include files made", stats.get("compared-cli", 0) >= 50)
    for f in ("macro-depth1", "macro-depth2", "macro-depth4", "macro-depth8", "macro-params9", "param-expr", "param-reg", "param-str",
              "param-label", "define", "pdefine", "equ", "dotequ", "define-params2", "include-depth1", "include-depth2",
              "definitions-in-include", "repeat", "repeat-in-macro", "include-in-macro", "call-on-label-line", "call-before-label"):
        run.require("feature %s in >= 5 compared pairs" % f, feat.get(f, 0) >= 5)
    return run.finish(lambda cs: replay_keys(run, cs))


def replay_keys(run, cases):
    out = []
    vd = driver.Vdrv(core.ARTS["san"]["vdrv"])
    exe = core.ARTS["san"]["naken_asm"]
    for c in cases:
        keys = set()
        try:
            status, ks, info = eval_case(c, vd, exe)
            keys = {k for k, _ in ks}
        except driver.Died as e:
            keys.add("crash/%s" % core.crash_info(e)["sig"])
        out.append(keys)
    vd.close()
    return out


def replay_cli(doc, seed):
    run = core.Run("C09", "quick", seed, RULE)
    run.build("san")
    keys = replay_keys(run, [doc.get("case", doc)])[0]
    if keys:
        print("VIOLATION property=C09 replay=- keys=%s" % sorted(keys))
        return 1
    print("replay: no violation")
    return 0
