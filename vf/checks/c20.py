"""C20 - linked object code is placed once, its calls bound to the final addresses.

Monitor: the generator builds ELF32 relocatable objects and `ar` archives
(vf/fmt/c20_obj.py) whose functions carry unique marker words, R_MIPS_26 call
relocations and a known call graph; a MIPS-family program referencing a subset
of the functions is assembled by the real naken_asm CLI together with those
files; the written image (Intel HEX / bin) and the listing's symbol table are
compared with what the generator knows.
"""
import os
import re
import shutil
import struct
import tempfile

from .. import core, proc
from ..fmt import decode, c20_obj

RULE = ("generated link jobs: 1..3 import files (ar archives with 1..4 members, with/without '/' symbol index, '//' long-name "
        "table, odd-sized non-ELF members, odd-sized objects; bare .o files incl. the st_value==st_size layout), ELF32 "
        "LE/BE objects with 1..40 functions (1..1024 words), 0..6 unrelated sections, 1..700 symbols in shuffled order, shuffled "
        ".rel.text with R_MIPS_26 entries, calls inside one object / across members / across files, recursion and cycles, "
        "duplicate definitions; programs for mips32, pic32, ps2_ee (LE) and mips, n64_rsp (BE) referencing 0..all functions "
        "with jal/j; plus reject jobs (unresolved callee, ELF64, foreign e_machine, byte order opposite to the target). "
        "distinct_nontrivial = distinct (object shape, reference pattern) link jobs that produced an image which was fully "
        "compared, plus distinct reject classes observed.")

LE_CPUS = ["mips32", "pic32", "ps2_ee"]
BE_CPUS = ["mips", "n64_rsp"]
MARK = 0x3c1a0000          # lui $k0, <id>: marker word of function <id>
JAL = 0x0c000000
TMP = os.path.join(core.VERIF, ".work", "tmp")


# ----------------------------------------------------------------- generator

def rnd_word(rng):
    w = rng.getrandbits(32)
    if (w >> 26) == 3:              # would be taken for a jal by the linker
        w ^= 0x10000000
    if (w >> 16) == (MARK >> 16):
        w ^= 0x00010000
    if w == c20_obj.FILL_WORD:
        w ^= 1
    return w


def gen_funcs(rng, n, big_ok):
    """n functions with unique ids/names, random bodies; calls are added later."""
    funcs = []
    ids = rng.sample(range(1, 0xffff), n)
    for i in range(n):
        r = rng.random()
        if r < 0.08:
            nw = 1
        elif big_ok and r < 0.11:
            nw = 1024
        else:
            nw = rng.randint(2, 14)
        name = "zf%d_%s" % (i, "".join(rng.choice("abcxyzQRS_09") for _ in range(rng.choice([1, 3, 8, 20, 40]))))
        words = [MARK | ids[i]] + [rnd_word(rng) for _ in range(nw - 1)]
        funcs.append({"name": name, "words": words, "calls": [], "bind": 1, "gap": rng.choice([0, 0, 0, 1, 3])})
    return funcs


def add_calls(rng, funcs, extra_targets=(), density=0.5):
    names = [f["name"] for f in funcs] + list(extra_targets)
    for f in funcs:
        nw = len(f["words"])
        if nw < 2 or rng.random() > density:
            continue
        slots = list(range(1, nw))
        rng.shuffle(slots)
        for s in slots[:rng.choice([1, 1, 2, 3])]:
            f["words"][s] = JAL
            f["calls"].append([s, rng.choice(names)])
        f["calls"].sort()


def mk_obj(rng, funcs, endian, sym_big=False, eqsz=False):
    obj = {"endian": endian, "elfclass": 1, "machine": 8, "funcs": funcs,
           "filler": rng.choice([0, 1, 5, 20]) if not sym_big else rng.randint(260, 700),
           "symseed": rng.getrandbits(16), "pre": rng.choice([0, 0, 1, 3]), "post": rng.choice([0, 0, 1, 2]),
           "shdr_first": rng.random() < 0.25, "tail": rng.choice([0, 0, 0, 1, 3]), "sectsyms": rng.random() < 0.5}
    if eqsz:
        # st_value == st_size for every function: offsets S, 2S, 4S, ...
        off = 0
        for f in funcs:
            size = len(f["words"])
            if off == 0:
                f["gap"] = size
                off = 2 * size
            else:
                if size < off:
                    f["words"] += [rnd_word(rng) for _ in range(off - size)]
                    size = off
                f["gap"] = size - off
                off = 2 * size
    return obj


def gen_job(rng, cls, quick):
    """cls: 'a', 'o', 'o.eqsz', 'multi', 'a.dup', 'a.bigsym', 'be', and reject classes."""
    reject = cls.startswith("rej.")
    be_target = cls in ("be", "rej.le-on-be")
    cpu = rng.choice(BE_CPUS if be_target else LE_CPUS)
    endian = "be" if cls in ("be", "rej.be-on-le") else "le"
    if cls == "o.eqsz":
        nf = rng.randint(1, 4)
    elif quick:
        nf = rng.choice([1, 2, 3, 5, 8, 12])
    else:
        nf = rng.choice([1, 2, 3, 5, 8, 12, 20, 40])
    funcs = gen_funcs(rng, nf, big_ok=(cls != "o.eqsz"))
    unresolved = None
    if cls == "rej.unresolved":
        unresolved = "zz_nowhere_%d" % rng.randint(0, 999)
    add_calls(rng, funcs, density=rng.choice([0.0, 0.4, 0.8]) if cls != "a.bigsym" else 0.9)
    # distribute over files/members
    files = []
    if cls in ("o", "o.eqsz"):
        files.append({"kind": "o", "eqsz": int(cls == "o.eqsz"), "name": "lib0.o",
                      "obj": mk_obj(rng, funcs, endian, eqsz=(cls == "o.eqsz"))})
    else:
        nfiles = rng.choice([2, 3]) if cls == "multi" else 1
        groups = [[] for _ in range(nfiles)]
        for f in funcs:
            groups[rng.randrange(nfiles)].append(f)
        for fi, g in enumerate(groups):
            if not g:
                continue
            if cls == "multi" and rng.random() < 0.3 and len(g) <= 4 and all(len(f["words"]) <= 16 for f in g):
                # a bare .o with the size==offset layout keeps working on the unchanged tree
                files.append({"kind": "o", "eqsz": 1, "name": "obj%d.o" % fi, "obj": mk_obj(rng, g, endian, eqsz=True)})
                continue
            nm = rng.randint(1, min(4, len(g)))
            mem = [[] for _ in range(nm)]
            for f in g:
                mem[rng.randrange(nm)].append(f)
            members = []
            for mi, mf in enumerate(mem):
                if rng.random() < 0.3:
                    n = rng.choice([1, 13, 14, 27])
                    members.append({"name": "note%d.txt" % mi, "raw_hex": bytes(rng.getrandbits(7) | 1 for _ in range(n)).hex()})
                if not mf:
                    continue
                mname = rng.choice(["m%d.o", "member_%d.o", "a_rather_long_member_name_%d.o"]) % mi
                members.append({"name": mname, "obj": mk_obj(rng, mf, endian, sym_big=(cls == "a.bigsym"))})
            files.append({"kind": "a", "name": "lib%d.a" % fi, "ar": {"members": members, "index": rng.random() < 0.6,
                                                                       "longnames": rng.random() < 0.5}})
    if cls == "a.dup":
        # a second definition of one function (same name and calls, different marker/body) in another member
        src = rng.choice(funcs)
        dup = {"name": src["name"], "words": list(src["words"]), "calls": [list(c) for c in src["calls"]], "bind": 1, "gap": 0}
        used = {f["words"][0] for f in funcs}
        while True:
            m = MARK | rng.randint(1, 0xfffe)
            if m not in used:
                break
        dup["words"][0] = m
        for i in range(1, len(dup["words"])):
            if dup["words"][i] != JAL:
                dup["words"][i] = rnd_word(rng)
        files[0]["ar"]["members"].append({"name": "dup.o", "obj": mk_obj(rng, [dup], endian)})
    # program
    names = [f["name"] for f in funcs]
    k = rng.choice([0, 1, 1, 2, len(names), rng.randint(0, len(names))])
    refs = rng.sample(names, min(k, len(names)))
    if reject and not refs:
        refs = [rng.choice(names)]
    if cls == "rej.unresolved":
        # one function reachable from the program calls a symbol defined nowhere
        byname = {f["name"]: f for f in funcs}
        cands = [f for f in funcs if len(f["words"]) >= 2]
        if not cands:
            funcs[0]["words"].append(0)
            cands = [funcs[0]]
        f = rng.choice(cands)
        slot = rng.choice([s for s in range(1, len(f["words"]))])
        f["calls"] = [c for c in f["calls"] if c[0] != slot]
        f["words"][slot] = JAL
        f["calls"].append([slot, unresolved])
        f["calls"].sort()
        if f["name"] not in refs:
            refs.append(f["name"])
    if cls == "rej.elf64":
        for fl in files:
            for m in fl["ar"]["members"]:
                if "obj" in m:
                    m["obj"]["elfclass"] = 2
    if cls == "rej.machine":
        mach = rng.choice([3, 40, 62, 243, 20])     # 386, ARM, x86-64, RISC-V, PPC
        for fl in files:
            for m in fl["ar"]["members"]:
                if "obj" in m:
                    m["obj"]["machine"] = mach
    prog = [["label", "main"]]
    for nme in refs:
        prog.append([rng.choice(["jal", "jal", "j"]), nme])
        prog.append(["word", 0])
        if rng.random() < 0.3:
            prog.append(["word", rnd_word(rng)])
    if rng.random() < 0.5:
        prog.append(["label", "own_tail"])
        prog.append(["jal", "main"])
        prog.append(["word", 0])
    if len(prog) == 1:
        prog.append(["word", rnd_word(rng)])
    order = list(range(len(files)))
    rng.shuffle(order)
    return {"cls": cls, "cpu": cpu, "org": rng.choice([0x0, 0x1000, 0x8000, 0x100000, 0x0fff0000]),
            "otype": rng.choice(["hex", "hex", "bin"]), "prog": prog, "files": files, "argorder": order,
            "expect": "error" if reject else ("link-or-error" if cls == "be" else "link")}


# ----------------------------------------------------------------- evaluator

SYM_RE = re.compile(r"^\s*(\S+) ([0-9a-f]{8}) \d+\s*$")


def job_funcs(job):
    """-> list of (file kind, function dict) for every function definition in the job's files."""
    out = []
    for fl in job["files"]:
        if fl["kind"] == "o":
            out += [("o", f) for f in fl["obj"]["funcs"]]
        else:
            for m in fl["ar"]["members"]:
                if "obj" in m:
                    out += [("a", f) for f in m["obj"]["funcs"]]
    return out


def kind_of(job):
    if job["cls"].startswith("rej.") or job["cls"] in ("be", "a.dup"):
        return job["cls"]
    return "+".join(sorted({("oq" if fl.get("eqsz") else fl["kind"]) for fl in job["files"]}))


def source(job):
    lines = [".%s" % job["cpu"], ".org 0x%x" % job["org"]]
    for op, arg in job["prog"]:
        if op == "label":
            lines.append("%s:" % arg)
        elif op == "word":
            lines.append("  .dc32 0x%08x" % arg)
        else:
            lines.append("  %s %s" % (op, arg))
    return "\n".join(lines) + "\n"


def eval_job(item):
    exe, job = item
    os.makedirs(TMP, exist_ok=True)
    d = tempfile.mkdtemp(prefix="c20_", dir=TMP)
    res = {"job": job, "viol": [], "state": None, "info": {}}
    try:
        return _eval(exe, job, d, res)
    finally:
        shutil.rmtree(d, ignore_errors=True)


def _eval(exe, job, d, res):
    kind = kind_of(job)
    viol = res["viol"]

    def v(rule, desc):
        if all(r != rule for r, _ in viol):
            viol.append((rule, desc))

    core.write_tmp(d, "p.asm", source(job))
    for fl in job["files"]:
        data = c20_obj.build_elf(fl["obj"]) if fl["kind"] == "o" else c20_obj.build_ar(fl["ar"])
        core.write_tmp(d, fl["name"], data)
    out = "p." + job["otype"]
    argv = [exe, "-l", "-type", job["otype"], "-o", out, "p.asm"] + [job["files"][i]["name"] for i in job["argorder"]]
    o = proc.run(argv, cwd=d, cpu_s=20, fsize_mb=64)
    res["info"]["status"] = o.status
    if o.wall_killed:
        res["state"] = "inconclusive"
        res["why"] = "wall watchdog"
        return res
    if o.san:
        # a big-endian object is parsed with little-endian accessors (no EI_DATA test): the wild offsets that result crash
        # in varying places, one root cause -> one key
        sig = "crash/" + o.san["sig"] if kind not in ("be", "rej.be-on-le") else "crash-parsing-be-object"
        v(sig, "naken_asm %s: %s" % (" ".join(argv[1:]), o.san["sig"]))
        res["state"] = "crash"
        return res
    if o.signal or o.timed_out:
        v("died", "naken_asm signal %s timed_out %s" % (o.signal, o.timed_out))
        res["state"] = "crash"
        return res
    big = job["cpu"] in BE_CPUS
    tail = o.stdout.strip().splitlines()[-12:]
    msg = " | ".join(l.strip() for l in o.stdout.splitlines() if "rror" in l)[:200]
    if job["expect"] == "error":
        if o.status == 0:
            v("accepted", "naken_asm exits 0 for a job that cannot be linked (%s)" % job["cls"])
            res["state"] = "accepted"
        else:
            res["state"] = "rejected"
            if out in o.files:
                v("output-left", "exit %s but %s was left behind" % (o.status, out))
        return res
    if o.status != 0:
        if job["expect"] == "link-or-error":
            res["state"] = "rejected"
            return res
        v("link-failed", "exit %s for a job whose symbols all resolve: %s" % (o.status, msg))
        res["state"] = "failed"
        return res
    # ---- image and symbols
    try:
        data = open(os.path.join(d, out), "rb").read()
        lst = open(os.path.join(d, "p.lst"), "r", errors="replace").read()
    except OSError:
        v("no-output", "exit 0 but no %s / listing" % out)
        res["state"] = "failed"
        return res
    if job["otype"] == "hex":
        img, meta, errs = decode.ihex(data)
        if errs:
            res["state"] = "inconclusive"      # the HEX container itself is C03's subject
            res["why"] = "hex file malformed: " + errs[0]
            return res
    else:
        img, meta, errs = decode.rawbin(data, job["org"])
    syms = {}
    seen_tab = False
    for ln in lst.splitlines():
        if "LABEL ADDRESS" in ln:
            seen_tab = True
            continue
        if seen_tab:
            m = SYM_RE.match(ln)
            if m:
                syms.setdefault(m.group(1), []).append(int(m.group(2), 16))
    if not seen_tab:
        v("no-symbol-table", "listing has no symbol table")
        res["state"] = "failed"
        return res

    def word(a):
        try:
            bs = bytes(img[a + i] for i in range(4))
        except KeyError:
            return None
        return struct.unpack(">I" if big else "<I", bs)[0]

    defs = {}
    for fk, f in job_funcs(job):
        defs.setdefault(f["name"], []).append(f)
    # closure of referenced functions
    need = []
    todo = [arg for op, arg in job["prog"] if op in ("jal", "j") and arg in defs]
    while todo:
        n = todo.pop()
        if n in need:
            continue
        need.append(n)
        for f in defs[n][:1]:
            for _, t in f["calls"]:
                if t in defs and t not in need:
                    todo.append(t)
    # marker positions in the image
    where = {}
    lo = min(img) if img else 0
    for a in sorted(img):
        if (a - lo) % 4 == 0:
            w = word(a)
            if w is not None and (w >> 16) == (MARK >> 16):
                where.setdefault(w, []).append(a)
    nbytes = 0
    ncalls = 0
    for n in need:
        cands = defs[n]
        if n not in syms:
            v("symbol-missing", "referenced function %s has no symbol in the listing's table" % n)
            continue
        if len(syms[n]) != 1:
            v("symbol-twice", "function %s is recorded %d times in the symbol table" % (n, len(syms[n])))
        addr = syms[n][0]
        places = []
        for f in cands:
            places += [(a, f) for a in where.get(f["words"][0], [])]
        if len(places) != 1:
            v("placed-count", "function %s (symbol 0x%x): its marker occurs %d times in the image (at %s)" %
              (n, addr, len(places), ",".join("0x%x" % a for a, _ in places[:4])))
            if not places:
                continue
        pa, f = places[0]
        if all(a != addr for a, _ in places):
            v("placed-address", "function %s placed at 0x%x but its symbol says 0x%x" % (n, pa, addr))
            continue
        f = [ff for a, ff in places if a == addr][0]
        calls = dict((c[0], c[1]) for c in f["calls"])
        for i, w in enumerate(f["words"]):
            got = word(addr + 4 * i)
            if i in calls:
                t = calls[i]
                ncalls += 1
                if t not in syms:
                    v("call-target", "%s+%d calls %s which has no symbol" % (n, 4 * i, t))
                    continue
                want = JAL | ((syms[t][0] >> 2) & 0x03ffffff)
                if got != want:
                    v("call-target", "%s+%d: jal to %s (final address 0x%x) is %s, expected 0x%08x" %
                      (n, 4 * i, t, syms[t][0], "absent" if got is None else "0x%08x" % got, want))
            elif got != w:
                v("bytes", "%s+%d (0x%x): image has %s, object has 0x%08x" %
                  (n, 4 * i, addr + 4 * i, "nothing" if got is None else "0x%08x" % got, w))
                break
        nbytes += 4 * len(f["words"])
    # unreferenced functions
    for n, cands in defs.items():
        if n in need:
            continue
        for f in cands:
            if where.get(f["words"][0]):
                v("unreferenced-included", "function %s is referenced by nobody but its code is in the image at 0x%x" %
                  (n, where[f["words"][0]][0]))
        if n in syms:
            v("unreferenced-symbol", "function %s is referenced by nobody but has a symbol (0x%x)" % (n, syms[n][0]))
    # the program itself
    a = job["org"]
    for op, arg in job["prog"]:
        if op == "label":
            if syms.get(arg, [None])[0] != a:
                v("program-label", "label %s recorded at %s, expected 0x%x" % (arg, syms.get(arg), a))
            continue
        got = word(a)
        if op == "word":
            want = arg
        else:
            if arg not in syms:
                a += 4
                continue
            want = (JAL if op == "jal" else 0x08000000) | ((syms[arg][0] >> 2) & 0x03ffffff)
        if got != want:
            v("program-call" if op != "word" else "program-overwritten",
              "program word at 0x%x (%s %s) is %s, expected 0x%08x" % (a, op, arg if op != "word" else "", "absent" if got is None else "0x%08x" % got, want))
        a += 4
    res["state"] = "linked"
    res["info"].update({"need": len(need), "defs": len(defs), "bytes": nbytes, "calls": ncalls, "image": len(img)})
    return res


# ----------------------------------------------------------------- driver

QUICK_MIX = [("a", 120), ("a.bigsym", 24), ("multi", 40), ("a.dup", 16), ("o", 20), ("o.eqsz", 24), ("be", 12),
             ("rej.unresolved", 16), ("rej.elf64", 8), ("rej.machine", 8), ("rej.be-on-le", 8), ("rej.le-on-be", 8)]


def gen_items(run):
    exe = core.ARTS["san"]["naken_asm"]
    quick = run.tier == "quick"
    scale = 6 if quick else 50
    items = []
    for cls, n in QUICK_MIX:
        for _ in range(n * scale):
            items.append((exe, gen_job(run.rng, cls, quick)))
    return items


def bucket(n):
    for b in (0, 1, 2, 4, 8, 16, 64, 256):
        if n <= b:
            return b
    return 9999


def shape(job, info):
    nmem = sum(len([m for m in fl["ar"]["members"] if "obj" in m]) if fl["kind"] == "a" else 1 for fl in job["files"])
    nsym = 0
    flags = []
    for fl in job["files"]:
        objs = [fl["obj"]] if fl["kind"] == "o" else [m["obj"] for m in fl["ar"]["members"] if "obj" in m]
        for ob in objs:
            nsym = max(nsym, ob.get("filler", 0) + len(ob["funcs"]))
        if fl["kind"] == "a":
            flags.append("i%d%d" % (fl["ar"]["index"], fl["ar"]["longnames"]))
    nrefs = len([1 for op, _ in job["prog"] if op in ("jal", "j")])
    return (kind_of(job), job["cpu"], len(job["files"]), min(nmem, 4), bucket(info.get("defs", 0)), bucket(nsym),
            ",".join(sorted(flags)), bucket(nrefs), bucket(info.get("need", 0)), bucket(info.get("calls", 0)))


# Bare objects whose functions do not all have st_value == st_size hit S17 (size and offset swapped in
# Linker::get_code_from_symbol): one root cause with many faces, so its symptoms are keyed by coarse group.
O_GROUP = {"link-failed": "link-failed", "no-output": "link-failed", "no-symbol-table": "link-failed", "hex-malformed": "link-failed",
           "died": "crash", "symbol-missing": "placement", "symbol-twice": "placement", "placed-count": "placement",
           "placed-address": "placement", "bytes": "placement", "program-label": "placement", "program-overwritten": "placement",
           "call-target": "call-target", "program-call": "call-target", "unreferenced-included": "unreferenced",
           "unreferenced-symbol": "unreferenced"}


def key_of(kind, rule):
    if kind == "o":
        rule = "crash" if rule.startswith("crash") else O_GROUP.get(rule, rule)
    return "%s/%s" % (kind, rule)


def consume(run, r, stats):
    job = r["job"]
    run.count()
    st = r["state"]
    kind = kind_of(job)
    stats["state_" + str(st)] = stats.get("state_" + str(st), 0) + 1
    stats["class_" + job["cls"]] = stats.get("class_" + job["cls"], 0) + 1
    if st == "inconclusive":
        run.inconc(r.get("why", "?"), {"cls": job["cls"], "cpu": job["cpu"], "program": source(job)})
        return
    if st == "linked":
        info = r["info"]
        stats["functions_placed_checked"] = stats.get("functions_placed_checked", 0) + info["need"]
        stats["function_bytes_compared"] = stats.get("function_bytes_compared", 0) + info["bytes"]
        stats["call_fields_checked"] = stats.get("call_fields_checked", 0) + info["calls"]
        stats["unreferenced_checked"] = stats.get("unreferenced_checked", 0) + info["defs"] - info["need"]
        if not r["viol"]:
            run.nt(shape(job, info))
            if info["need"] >= 2 and info["calls"] >= 1 and info["bytes"] < 400 and len(run.samples) < 4:
                run.sample({"cls": job["cls"], "cpu": job["cpu"], "files": [fl["name"] for fl in job["files"]],
                            "functions_defined": info["defs"], "functions_placed": info["need"], "calls_checked": info["calls"],
                            "program": source(job)})
    elif st == "rejected":
        run.nt(("reject", job["cls"], job["cpu"]))
    for rule, desc in r["viol"]:
        run.violation(key_of(kind, rule), job, "%s [%s, %s]: %s" % (job["cls"], job["cpu"], job["otype"], desc))


def main(run):
    run.build("san")
    stats = {}
    for r in core.pmap(eval_job, gen_items(run), chunk=4):
        if run.handle_common(r):
            continue
        consume(run, r, stats)
    run.cov.update(stats)
    run.assumptions = [
        "function names are unique per job except in the a.dup class, where either definition may be the one placed",
        "imported functions never call labels defined by the program itself and programs reference functions only by jal/j",
        "words in function bodies that are not call sites never have the jal major opcode (the linker recognises calls by opcode)",
        "call relocations name function symbols directly (no section-symbol + addend form), type R_MIPS_26 only",
        "symbol addresses are taken from the listing's symbol table; the image from -type hex or -type bin",
        "a byte-order / class / machine mismatch between object and target counts as 'unsupported object'; BE objects on BE "
        "targets may either link correctly or be rejected",
    ]
    run.require(">= 100 link jobs produced an image that was compared", stats.get("state_linked", 0) >= 100)
    run.require(">= 200 placed functions checked", stats.get("functions_placed_checked", 0) >= 200)
    run.require(">= 50 call fields checked", stats.get("call_fields_checked", 0) >= 50)
    run.require(">= 10 reject jobs evaluated", stats.get("state_rejected", 0) + stats.get("state_accepted", 0) +
                stats.get("state_crash", 0) >= 10)
    return run.finish(lambda cs: replay_keys(run, cs))


def replay_keys(run, cases):
    exe = core.ARTS["san"]["naken_asm"]
    out = []
    for c in cases:
        tmp = core.Run("C20", "quick", run.seed, RULE)
        consume(tmp, eval_job((exe, c)), {})
        out.append(set(tmp.viol.keys()))
    return out


def replay_cli(doc, seed):
    run = core.Run("C20", "quick", seed, RULE)
    run.build("san")
    keys = replay_keys(run, [doc.get("case", doc)])[0]
    if keys:
        print("VIOLATION property=C20 replay=- keys=%s" % sorted(keys))
        return 1
    print("replay: no violation")
    return 0
