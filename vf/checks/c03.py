"""C03 - every output format carries exactly the assembled memory image.

Monitor: format decoders written from the specifications (vf/fmt/decode.py)
applied to the files the real naken_asm CLI writes for generated data-only
programs whose image is known by construction; and the real naken_util loading
those files back (print of every segment edge).
"""
import os
import random
import re
import shutil
import tempfile
import zlib

from .. import core, proc
from ..fmt import decode

RULE = ("generated segment layouts (1..6 disjoint segments, lengths 1..70000 incl. non-multiples of 16, gaps 1..2^24, bases at 0, "
        "64 KiB crossings, 24-bit, 0x01000000+, 0x7fff0000), CPUs with 1/2/4/8 bytes per address, both byte orders and all three "
        "S-record width classes, optional .entry_point/.export, each written by the real naken_asm with -type hex, srec, elf, "
        "wdc, uf2, bin; each file decoded per its specification and compared with the image known by construction; each "
        "address-carrying file loaded back by the real naken_util. distinct_nontrivial = distinct (layout class, cpu, type) with "
        "a fully decoded and compared file.")

CPUS = [("msp430", 1), ("msp430x", 1), ("68000", 1), ("avr8", 2), ("propeller", 4), ("ebpf", 8), ("mips", 1), ("z80", 1), ("arm", 1)]
TYPES = ["hex", "srec", "elf", "wdc", "uf2", "bin"]
EXT = {"hex": "hex", "srec": "srec", "elf": "elf", "wdc": "wdc", "uf2": "uf2", "bin": "bin"}

LEN_Q = [1, 2, 15, 16, 17, 31, 32, 33, 255, 256, 257, 1000, 4097]
LEN_T = LEN_Q + [65535, 65536, 65537, 70000]
BASES = [0, 0x10, 0xfff0, 0xffff, 0x10000, 0x12345, 0xfffff0, 0x1000000, 0x1d00fff0, 0x7fff0000]
ENUM_LAYOUTS = [
    ("one-byte-at-0", [(0, 1)]),
    ("cross-64k", [(0xfff8, 20)]),
    ("start-at-64k", [(0x10000, 33)]),
    ("cross-16m", [(0xfffff8, 20)]),
    ("above-16m", [(0x1d00fffa, 12)]),
    ("three-gapped", [(0x100, 17), (0x1000, 1), (0x20000, 40)]),
    ("block-65536", [(0x200, 65536), (0x20300, 5)]),
    ("block-65537", [(0x0, 65537)]),
    ("high-2g", [(0x7fff0000, 48)]),
    ("adjacent", [(0x400, 16), (0x410, 16)]),
]


def seg_bytes(seed, n):
    r = random.Random(seed)
    return bytes(r.getrandbits(8) for _ in range(n))


def gen_layout(rng, bpa, quick):
    nseg = rng.randint(1, 6 if not quick else 4)
    segs = []
    pos = rng.choice(BASES)
    pos -= pos % bpa
    for _ in range(nseg):
        n = rng.choice(LEN_Q if quick else LEN_T)
        if rng.random() < 0.3:
            n = rng.randint(1, 300)
        if bpa > 1:
            n = max(bpa, n - n % bpa)
        segs.append((pos, n))
        gap = rng.choice([1, 2, 15, 16, 17, 100, 0x1000, 0xfff0, 0x10000, 0x123456, 1 << 24])
        pos = pos + n + gap
        pos += (-pos) % bpa
        if pos > 0x7fff0000:
            break
    return segs


def source(cpu, bpa, segs, seed, entry, exports):
    lines = [".%s" % cpu]
    img = {}
    for si, (a, n) in enumerate(segs):
        data = seg_bytes(seed * 131 + si, n)
        lines.append(".org 0x%x" % (a // bpa))
        if si in exports:
            lines.append("sym%d:" % si)
        for i in range(0, n, 16):
            lines.append(".db " + ",".join(str(b) for b in data[i:i + 16]))
        for i, b in enumerate(data):
            img[a + i] = b
    if entry is not None:
        lines.append(".entry_point 0x%x" % (entry // bpa))
    for si in exports:
        lines.append(".export sym%d" % si)
    return "\n".join(lines) + "\n", img


def compare(kind, want, got, lo, hi, block=1):
    """range formats (bin, elf, uf2): unwritten bytes inside the (block-aligned) range must be zero."""
    v = []
    miss = [a for a in want if a not in got]
    if miss:
        v.append(("missing", "byte at 0x%x (and %d more) missing from the decoded file" % (min(miss), len(miss) - 1)))
    wrong = [a for a in want if a in got and got[a] != want[a]]
    if wrong:
        a = min(wrong)
        v.append(("wrong-byte", "0x%x: file has 0x%02x, image has 0x%02x (%d wrong)" % (a, got[a], want[a], len(wrong))))
    extra = [a for a in got if a not in want]
    if kind == "sparse":
        if extra:
            v.append(("extra", "file carries a byte at 0x%x (and %d more) that was never assembled" % (min(extra), len(extra) - 1)))
    else:
        # padding with zeros up to the format's block size (counted from the lowest address) is not program data
        lo_b = lo
        hi_b = lo + ((hi - lo + 1 + block - 1) // block) * block - 1
        bad = [a for a in extra if a < lo_b or a > hi_b or got[a] != 0]
        if bad:
            a = min(bad)
            v.append(("extra", "file carries non-gap byte 0x%02x at 0x%x (%d such)" % (got[a], a, len(bad))))
    return v


PRINT_ROW = re.compile(r"^0x([0-9a-f]+):((?: [0-9a-f]{2})+)", re.I)


def readback(exe_util, d, cpu, bpa, fname, want, segs, pad=1):
    """naken_util loads the file; print around every segment edge."""
    cmds = []
    probes = []
    for a, n in segs:
        for s, e in ((a, min(a + n, a + 48) - 1), (max(a, a + n - 48), a + n - 1)):
            s -= s % (16)
            cmds.append("print 0x%x-0x%x" % (s // bpa, e // bpa))
            probes.append((s, e))
    stdin = "\n".join(cmds) + "\nquit\n"
    o = proc.run([exe_util, "-" + cpu, fname], cwd=d, cpu_s=10, stdin_data=stdin)
    if o.san:
        return [("reader-" + o.san["sig"], "naken_util loading %s: %s" % (fname, o.san["sig"]))], 0
    if o.signal or o.timed_out:
        return [("reader-died", "naken_util loading %s: signal %s timeout %s" % (fname, o.signal, o.timed_out))], 0
    if "Loaded" not in o.stdout:
        return [("reader-rejects", "naken_util refuses the file naken_asm wrote: %s" % o.stdout.strip()[-160:].replace("\n", " | "))], 0
    seen = {}
    for ln in o.stdout.splitlines():
        m = PRINT_ROW.match(ln.strip().replace("stopped> ", ""))
        if m:
            a = int(m.group(1), 16) * bpa
            for i, h in enumerate(m.group(2).split()[:16]):   # a full row is 16 bytes; the ASCII column may look like hex
                seen[a + i] = int(h, 16)
    v = []
    bad = [a for a in seen if seen[a] != want.get(a, 0)]
    if bad:
        a = min(bad)
        v.append(("reader-image", "naken_util shows 0x%02x at 0x%x after loading %s, image has 0x%02x (%d differing)" %
                  (seen[a], a, fname, want.get(a, 0), len(bad))))
    m = re.search(r"from 0x([0-9a-f]+) to 0x([0-9a-f]+)", o.stdout)
    if m:
        lo, hi = int(m.group(1), 16), int(m.group(2), 16)
        whi = min(want) + ((max(want) - min(want) + pad) // pad) * pad - 1
        if lo != min(want) or hi < max(want) or hi > whi:
            v.append(("reader-range", "naken_util reports 0x%x..0x%x, image spans 0x%x..0x%x" % (lo, hi, min(want), max(want))))
    return v, len(seen)


def case_item(item):
    exe, exe_util, cpu, bpa, segs, seed, entry, exports, types, lclass = item
    d = tempfile.mkdtemp(prefix="c03_")
    res = {"viol": [], "done": [], "case": {"cpu": cpu, "bpa": bpa, "segs": segs, "seed": seed, "entry": entry,
                                            "exports": exports, "lclass": lclass}, "nbytes": 0, "readback_bytes": 0}
    span_cap = (2 << 20)
    try:
        src, want = source(cpu, bpa, segs, seed, entry, exports)
        core.write_tmp(d, "p.asm", src)
        lo, hi = min(want), max(want)
        res["nbytes"] = len(want)
        for t in types:
            span = hi - lo + 1
            if t in ("bin", "elf", "uf2") and span > span_cap:
                continue
            if t == "wdc" and hi >= (1 << 24) and not lclass.startswith("enum:"):
                continue    # the WDC container has 24-bit addresses; the enumerated layouts record that finding
            out = "p." + EXT[t]
            o = proc.run([exe, "-type", t, "-o", out, "p.asm"], cwd=d, cpu_s=30, fsize_mb=128)
            if o.san:
                res["viol"].append((t, "writer-" + o.san["sig"], "naken_asm -type %s: %s" % (t, o.san["sig"])))
                continue
            if o.signal or o.timed_out:
                res["viol"].append((t, "writer-died", "naken_asm -type %s: signal %s timed_out %s" % (t, o.signal, o.timed_out)))
                continue
            if o.status != 0 or out not in o.files:
                res["viol"].append((t, "writer-failed", "naken_asm -type %s exit %s: %s" % (t, o.status, o.stdout.strip()[-120:])))
                continue
            data = open(os.path.join(d, out), "rb").read()
            v = []
            if t == "bin":
                got, meta, errs = decode.rawbin(data, lo)
                if len(data) != span:
                    v.append(("length", "bin file is %d bytes, low..high spans %d" % (len(data), span)))
                v += compare("range", want, got, lo, hi)
            else:
                got, meta, errs = decode.DECODERS[t](data)
                for e in errs[:2]:
                    v.append(("malformed", e))
                if t == "uf2":
                    v += compare("range", want, got, lo, hi, 256)
                elif t == "elf":
                    v += compare("range", want, got, lo, hi, 16)
                else:
                    v += compare("sparse", want, got, lo, hi)
                if entry is not None and t in ("elf", "srec"):
                    if meta.get("entry") != entry // bpa and meta.get("entry") != entry:
                        v.append(("entry", "entry point in the file is %s, assembled value 0x%x" % (meta.get("entry"), entry // bpa)))
                if t == "elf":
                    for si in exports:
                        ent = meta["symbols"].get("sym%d" % si)
                        wantv = segs[si][0] // bpa
                        if not ent:
                            v.append(("symbol-missing", "exported symbol sym%d not in .symtab" % si))
                        elif all(e["value"] != wantv for e in ent):
                            v.append(("symbol-value", "exported symbol sym%d = 0x%x in .symtab, assembled 0x%x" % (si, ent[0]["value"], wantv)))
            for k, desc in v[:2]:
                res["viol"].append((t, k, desc))
            if not v:
                res["done"].append(t)
            # reader side
            if t in ("hex", "srec", "elf", "wdc", "uf2"):
                rv, nb = readback(exe_util, d, cpu, bpa, out, want, segs, {"elf": 16, "uf2": 256}.get(t, 1))
                res["readback_bytes"] += nb
                for k, desc in rv[:1]:
                    res["viol"].append((t, k, desc))
        return res
    finally:
        shutil.rmtree(d, ignore_errors=True)


def srec_class(cpu):
    return {"msp430": 16, "msp430x": 24, "68000": 32, "avr8": 16, "propeller": 16, "ebpf": 16, "mips": 32, "z80": 16, "arm": 32}.get(cpu, 0)


def gen_items(run):
    quick = run.tier == "quick"
    exe = core.ARTS["san"]["naken_asm"]
    exe_util = core.ARTS["san"]["naken_util"]
    items = []
    # enumerated layouts: all CPUs x all types (instances catalogued)
    for name, segs in ENUM_LAYOUTS:
        for cpu, bpa in CPUS:
            s2 = [(a - a % bpa, max(bpa, n - n % bpa) if bpa > 1 else n) for a, n in segs]
            entry = s2[0][0]
            items.append((exe, exe_util, cpu, bpa, s2, 7, entry, [0], TYPES, "enum:" + name))
    rng = random.Random(run.seed * 2654435761 % (1 << 31))
    for i in range(60 if quick else 3000):
        cpu, bpa = CPUS[i % len(CPUS)]
        segs = gen_layout(rng, bpa, quick)
        entry = segs[0][0] if rng.random() < 0.5 else None
        exports = [0] if rng.random() < 0.5 else []
        items.append((exe, exe_util, cpu, bpa, segs, rng.getrandbits(24), entry, exports, TYPES, "seeded"))
    return items


def layout_class(segs):
    n = len(segs)
    cross = any((a // 0x10000) != ((a + l - 1) // 0x10000) for a, l in segs)
    big = max(a + l for a, l in segs)
    width = "16" if big <= 0x10000 else "24" if big <= 0x1000000 else "32"
    odd = any(l % 16 for a, l in segs)
    return "n%d/%s/%s/%s" % (min(n, 3), "cross" if cross else "nocross", width, "odd" if odd else "even")


def consume(run, r, stats):
    c = r["case"]
    run.count(len(r["done"]) + len(r["viol"]))
    stats["bytes_assembled"] = stats.get("bytes_assembled", 0) + r["nbytes"]
    stats["readback_bytes_compared"] = stats.get("readback_bytes_compared", 0) + r["readback_bytes"]
    lc = layout_class(c["segs"])
    for t in r["done"]:
        run.nt((lc, c["cpu"], t))
        stats["files_ok_" + t] = stats.get("files_ok_" + t, 0) + 1
    if r["done"] and len(run.samples) < 3:
        run.sample({"cpu": c["cpu"], "segments": [[hex(a), n] for a, n in c["segs"]], "types_decoded": r["done"]})
    enum = c["lclass"].startswith("enum:")
    for t, k, desc in r["viol"]:
        key = "%s/%s/srec%d-bpa%d" % (t, k, srec_class(c["cpu"]), c["bpa"])
        inst = ("%s|%s|%s" % (c["lclass"], c["cpu"], t)) if enum else None
        run.violation(key, c, "%s %s [%s]: %s" % (c["cpu"], t, ",".join("0x%x+%d" % (a, n) for a, n in c["segs"]), desc), instance=inst)


def main(run):
    run.build("san")
    stats = {}
    for r in core.pmap(case_item, gen_items(run), chunk=1):
        if run.handle_common(r):
            continue
        consume(run, r, stats)
    run.cov.update(stats)
    run.assumptions = ["amiga and macho have no address-carrying round trip in the statement and are only exercised by C16/C17",
                       "range writers (bin, elf, uf2) are only run when low..high spans < 24 MiB",
                       "the UF2 0xe48bff57 'absolute family' block the writer emits first (Pico SDK convention) is not program data",
                       "naken_util read-back prints the first and last 48 bytes of every segment, not every byte"]
    run.require(">= 200 files decoded and compared", sum(v for k, v in stats.items() if k.startswith("files_ok_")) >= 200)
    return run.finish(lambda cs: replay_keys(run, cs))


def replay_keys(run, cases):
    exe = core.ARTS["san"]["naken_asm"]
    exe_util = core.ARTS["san"]["naken_util"]
    out = []
    for c in cases:
        tmp = core.Run("C03", "quick", run.seed, RULE)
        segs = [tuple(s) for s in c["segs"]]
        r = case_item((exe, exe_util, c["cpu"], c["bpa"], segs, c["seed"], c["entry"], c["exports"], TYPES, c["lclass"]))
        consume(tmp, r, {})
        out.append(set(tmp.viol.keys()))
    return out


def replay_cli(doc, seed):
    run = core.Run("C03", "quick", seed, RULE)
    run.build("san")
    keys = replay_keys(run, [doc.get("case", doc)])[0]
    if keys:
        print("VIOLATION property=C03 replay=- keys=%s" % sorted(keys))
        return 1
    print("replay: no violation")
    return 0
