"""C16 - naken_asm never crashes, hangs or corrupts memory, whatever the source text.

Monitor: the real ASan+UBSan naken_asm CLI binary, one input per process under CPU / file-size / RSS
limits (vf/proc.py).  Events: termination by signal, sanitizer report, CPU limit on an input that cannot
legitimately ask for bulk work, exit status outside {0,1}, exit status != 0 without any diagnostic.
"""
import os
import random
import re
import shutil
import signal
import tempfile

from .. import build as vbuild
from .. import core, proc
from ..gen import c16_mutate as G

PID = "C16"
RULE = ("three generators run through the real sanitized naken_asm CLI, one case per process: (1) enumerated structured blow-ups "
        "(60 token/identifier/number/string/comment/macro/define/include/CLI length shapes x lengths 127..65536; operand counts "
        "1..300 x operand styles x 68 CPUs; define/macro/include/conditional/parenthesis/repeat/scope nesting at 1..1000; macro/define "
        "parameter counts 0..300; self/mutual recursion through defines, macros, equ and includes; origins at 0, 2^31, 2^32-1; every "
        "-type and alias flag x programs with/without a cpu directive x listing/dump flags; 44 odd command lines), (2) 1..3 seeded "
        "token-level mutations (18 operators) of /repo/samples files <= 6 KB and of tests/comparison lines as one-instruction "
        "programs of every CPU (cpu directive swapped over all 68), (3) unstructured bytes (raw/printable/assembler alphabet/word "
        "salad) with and without a cpu directive.  distinct_nontrivial = distinct (generator class, cpu, mutation operator set) whose "
        "child reached pass 1 ('Pass 1' printed or an assembler diagnostic).")

CPU_FAST = 2
CPU_FULL = 10
ASAN = proc.ASAN_ENV.replace("hard_rss_limit_mb=3000", "hard_rss_limit_mb=1500")
DIAG_RE = re.compile(r"(?i)error|couldn't|could not|cannot|can't|unknown|usage|fail|invalid|illegal|unexpected|missing|expected|"
                     r"not found|too (many|long|big|large)|exhausted|unmatched|warning|no input|not supported|unsupported|out of range|"
                     r"exceed|problem|unable|already|must|doesn't|does not|not |bad ")


def tmpdir():
    base = os.path.join(vbuild.VERIF, ".work", "tmp")
    os.makedirs(base, exist_ok=True)
    return tempfile.mkdtemp(prefix="c16_", dir=base)


def run_case(item):
    """item = (exe, case, cpu_limit) -> result dict"""
    exe, case, cpu_s = item
    d = tmpdir()
    try:
        files = dict(case.get("files") or {})
        files.setdefault("t.asm", case["src"])
        for name, content in files.items():
            if "/" in name or len(name) > 255:
                continue
            with open(os.path.join(d, name), "wb") as f:
                f.write(content.encode("latin-1", "replace"))
        args = [a.replace("@REPO@", vbuild.REPO) for a in case["args"]]
        o = proc.run([exe] + args, cwd=d, cpu_s=cpu_s, fsize_mb=64, env=proc.base_env({"ASAN_OPTIONS": ASAN}), max_out=1 << 18)
        return {"case": case, "ev": judge(o, case), "cpu": round(o.cpu_s, 2), "reached": ("Pass 1" in o.stdout) or bool(re.search(r"Error|error", o.stdout)),
                "status": o.status}
    finally:
        shutil.rmtree(d, ignore_errors=True)


def san_key(san, stderr):
    return "san/" + G.san_sig(san, stderr)


def judge(o, case):
    """-> list of (event, key, description)."""
    cls = case["cls"]
    cpu = case.get("cpu") or "none"
    if o.wall_killed:
        return [("inconclusive", "wall", "wall-clock watchdog")]
    if o.san:
        k = o.san["kind"]
        if k in ("asan:rss-limit", "asan:oom"):
            if eligible(case):
                return [("viol", "memory/%s" % cls.split("/")[0], "RSS cap (1.5 GB) exceeded on a small input: %s" % k)]
            return [("withheld", "rss", "rss cap on a bulk-tagged input")]
        first = o.stderr[o.stderr.find("ERROR"):][:300].replace("\n", " | ") if "ERROR" in o.stderr else o.stderr[:300].replace("\n", " | ")
        return [("viol", san_key(o.san, o.stderr), "sanitizer report: %s" % first)]
    if o.timed_out or o.signal == signal.SIGXCPU:
        return [("slow", "cpu", "CPU limit")]
    if o.signal == signal.SIGXFSZ or (o.status == 1 and "File size limit" in o.stderr):
        return [("withheld", "fsize", "file-size limit")]
    if o.signal:
        return [("viol", "signal/%d/%s/%s" % (o.signal, cls.split("/")[0], cpu), "killed by signal %d; stderr: %s" % (o.signal, o.stderr[-200:]))]
    if o.status not in (0, 1):
        return [("viol", "exit-status/%s/%s" % (o.status, cls.split("/")[0]), "exit status %s; output: %s" % (o.status, (o.stdout + o.stderr)[-200:]))]
    if o.status == 1:
        text = o.stdout + o.stderr
        body = text.split("Email:")[-1]
        if not DIAG_RE.search(body):
            return [("viol", "silent-failure/%s" % cls.split("/")[0], "exit 1 without a diagnostic; output tail: %r" % body[-200:])]
    return []


def eligible(case):
    if case["cls"].startswith("addr") or case["cls"].startswith("type") or case["cls"] == "bytes":
        # addresses / range writers / arbitrary bytes may legitimately ask for bulk output
        if case["cls"] == "bytes":
            return G.hang_eligible(case["src"])
        return False
    ex = tuple((case.get("files") or {}).values())
    return G.hang_eligible(case["src"], ex)


# ------------------------------------------------------------------ generation

def gen_cases(run):
    quick = run.tier == "quick"
    rng = run.rng
    corp = G.corpus_seeds()
    cases = list(G.enumerated(quick, corp))
    samples = G.sample_seeds()
    cpus_corp = sorted(corp)
    # (2) mutation
    n_mut_s = 700 if quick else 10000
    n_mut_c = 1800 if quick else 30000
    n_bytes = 300 if quick else 4000
    for i in range(n_mut_s):
        name, hint, text, xargs = samples[rng.randrange(len(samples))]
        other = samples[rng.randrange(len(samples))][2]
        src, ops = G.mutate(rng, text, other)
        cpu = cpu_of(src) or hint
        cases.append({"id": "mut-sample", "cls": "mut-sample", "src": src, "cpu": cpu, "ops": ops, "seed_file": name,
                      "args": xargs + ["-o", "out.hex", "t.asm"]})
    for i in range(n_mut_c):
        cpu = cpus_corp[i % len(cpus_corp)]
        lines = corp[cpu]
        k = rng.choice([1, 1, 2, 4])
        text = G.one_liner(cpu, "\n  ".join(rng.choice(lines) for _ in range(k)))
        ocpu = rng.choice(cpus_corp)
        other = rng.choice(corp[ocpu])
        if rng.random() < 0.25:
            # cross-cpu: keep the lines, change the cpu directive (reaches the 23 CPUs without a comparison file too)
            ncpu = rng.choice(G.CPUS)
            text = text.replace(".%s\n" % cpu, ".%s\n" % ncpu, 1)
        src, ops = G.mutate(rng, text, other)
        cases.append({"id": "mut-corpus", "cls": "mut-corpus", "src": src, "cpu": cpu_of(src) or cpu, "ops": ops,
                      "args": ["-I", "@REPO@/include", "-o", "out.hex", "t.asm"]})
    # unmutated corpus lines for every cpu (baseline: the monitor sees clean runs)
    for cpu in cpus_corp:
        for t in (corp[cpu][:3] if quick else corp[cpu][::7]):
            cases.append({"id": "corpus-plain", "cls": "plain", "src": G.one_liner(cpu, t), "cpu": cpu, "ops": [],
                          "args": ["-I", "@REPO@/include", "-o", "out.hex", "t.asm"]})
    # (3) unstructured bytes
    for i in range(n_bytes):
        cpu = rng.choice(G.CPUS) if rng.random() < 0.8 else None
        src, style = G.random_bytes(rng, cpu)
        cases.append({"id": "bytes", "cls": "bytes", "src": src, "cpu": cpu, "ops": [style], "args": ["-o", "out.hex", "t.asm"]})
    return cases


def cpu_of(src):
    m = re.search(r"(?mi)^\s*\.(%s)\s*$" % "|".join(re.escape(c) for c in G.CPUS), src)
    return m.group(1).lower() if m else None


def hang_class(case):
    return "%s" % (case.get("cpu") or "none")


# ------------------------------------------------------------------ main

def consume(run, r, slow):
    c = r["case"]
    run.count()
    cls = c["cls"]
    run.cov["cases_" + cls.split("/")[0]] = run.cov.get("cases_" + cls.split("/")[0], 0) + 1
    if r["reached"]:
        run.nt((cls, c.get("cpu"), ",".join(sorted(set(c.get("ops") or [])))))
        run.cov["reached_assembler"] = run.cov.get("reached_assembler", 0) + 1
    run.cov["exit_%s" % r["status"]] = run.cov.get("exit_%s" % r["status"], 0) + 1
    if not r["ev"] and len(run.samples) < 6 and cls.startswith("mut") and r["status"] == 1:
        run.sample({"cls": cls, "ops": c.get("ops"), "cpu": c.get("cpu"), "status": r["status"], "src_head": c["src"][:160]})
    for ev, key, desc in r["ev"]:
        if ev == "viol":
            run.cov["events_" + key.split("/")[0]] = run.cov.get("events_" + key.split("/")[0], 0) + 1
            run.violation(key, slim(c), "%s [%s cpu=%s ops=%s]" % (desc, c["id"], c.get("cpu"), c.get("ops")))
        elif ev == "slow":
            slow.append(c)
        elif ev == "withheld":
            run.cov["withheld_" + key] = run.cov.get("withheld_" + key, 0) + 1
        elif ev == "inconclusive":
            run.inconc(desc, {"id": c["id"], "cls": cls})


def slim(c):
    return {k: v for k, v in c.items() if k in ("id", "cls", "src", "cpu", "args", "files", "ops", "seed_file")}


def confirm_slow(run, exe, slow):
    """Cases that exceeded the fast CPU budget: up to 3 per hang class are re-run with the full 10 s budget."""
    per = {}
    todo = []
    for c in slow:
        if not eligible(c):
            run.cov["withheld_cpu_bulk"] = run.cov.get("withheld_cpu_bulk", 0) + 1
            continue
        hc = hang_class(c)
        per[hc] = per.get(hc, 0) + 1
        if per[hc] <= 3:
            todo.append(c)
        else:
            run.cov["hang_repeats_skipped"] = run.cov.get("hang_repeats_skipped", 0) + 1
    todo.sort(key=lambda c: len(c["src"]))
    for r in core.pmap(run_case, [(exe, c, CPU_FULL) for c in todo], chunk=1):
        if run.handle_common(r):
            continue
        c = r["case"]
        evs = r["ev"]
        if any(e[0] == "slow" for e in evs):
            run.cov["events_hang"] = run.cov.get("events_hang", 0) + 1
            run.violation("hang/" + hang_class(c), slim(c), "no termination within %d CPU-s on a %d-byte input that requests no bulk output [%s ops=%s]"
                          % (CPU_FULL, len(c["src"]), c["id"], c.get("ops")))
        else:
            for ev, key, desc in evs:
                if ev == "viol":
                    run.violation(key, slim(c), desc)
            run.cov["slow_but_finished"] = run.cov.get("slow_but_finished", 0) + 1


def main(run):
    run.build("san")
    exe = core.ARTS["san"]["naken_asm"]
    cases = gen_cases(run)
    random.Random(run.seed).shuffle(cases)
    slow = []
    for r in core.pmap(run_case, [(exe, c, CPU_FAST) for c in cases]):
        if run.handle_common(r):
            continue
        consume(run, r, slow)
    run.cov["over_fast_budget"] = len(slow)
    confirm_slow(run, exe, slow)
    run.assumptions = [
        "the hang verdict is only taken for inputs whose every range/count directive line is a plain '.dir literal' with origin < 2^20 and "
        "counts <= 4096 (product of repeat counts <= 65536); other inputs are judged on crashes and sanitizer reports only",
        "cases over 2 CPU-s are re-run with the 10 CPU-s budget, at most 3 per cpu; further repeats of that cpu's hang are counted, not re-run",
        "hang keys are per cpu directive: a second non-termination defect in the same cpu's assembler is covered by the same known finding",
        "sanitizer keys are kind/function/file of the innermost /repo frame (line numbers stripped)",
        "RSS cap 1.5 GB (ASan hard_rss_limit_mb), file-size cap 64 MB; reaching the file-size cap is not judged",
        "intra-object overflows reached through pointer arithmetic are invisible to ASan/UBSan",
    ]
    run.require(">= 1000 cases reached the assembler passes", run.cov.get("reached_assembler", 0) >= 1000)
    run.require("clean exits (status 0) observed", run.cov.get("exit_0", 0) >= 100)
    run.require("diagnosed failures (status 1) observed", run.cov.get("exit_1", 0) >= 100)
    return run.finish(lambda cs: replay_keys(run, cs))


def replay_keys(run, cases):
    exe = core.ARTS["san"]["naken_asm"]
    out = {}
    items = [(exe, dict(c, _i=i), CPU_FAST) for i, c in enumerate(cases)]
    again = []
    for r in core.pmap(run_case, items, chunk=1):
        if "_error" in r:
            run.harness_errors.append(r["_error"])
            continue
        i = r["case"]["_i"]
        out[i] = set(k for ev, k, d in r["ev"] if ev == "viol")
        if any(ev == "slow" for ev, k, d in r["ev"]):
            again.append((exe, r["case"], CPU_FULL))
    for r in core.pmap(run_case, again, chunk=1):
        if "_error" in r:
            continue
        i = r["case"]["_i"]
        if any(ev == "slow" for ev, k, d in r["ev"]) and eligible(r["case"]):
            out[i].add("hang/" + hang_class(r["case"]))
        out[i] |= set(k for ev, k, d in r["ev"] if ev == "viol")
    return [out.get(i, set()) for i in range(len(cases))]


def replay_cli(doc, seed):
    run = core.Run(PID, "quick", seed, RULE)
    run.build("san")
    keys = replay_keys(run, [doc.get("case", doc)])[0]
    if keys:
        print("VIOLATION property=%s replay=- keys=%s" % (PID, sorted(keys)))
        return 1
    print("replay: no violation")
    return 0
