"""C07 - decode -> encode -> decode is a fixpoint over machine words.

W --real disassembler--> T --real assembler (same address)--> W' --real disassembler--> T'
Violation: T accepted, and T' differs from T after numeric normalisation in a
way that changes the meaning (same mnemonic with different operands, or a
different mnemonic that does not even assemble back to W').
"""
import random
import re
import zlib

from .. import core, driver, rt
from ..gen import corpus

RULE = ("per CPU the 65536 leading 16-bit patterns (pattern at byte 0, and at byte 2 for 32-bit little-endian ISAs) x tail "
        "fillings are decoded by the real disassembler; every rendering that is not '???' is a candidate. quick: one "
        "representative per (cpu, mnemonic, operand shape) plus a seeded sample; thorough: every decodable pattern. Each "
        "candidate is re-assembled at the same address by the real assembler and the result decoded again. "
        "distinct_nontrivial = distinct (cpu, mnemonic) with at least one accepted re-assembly that was compared.")

TAILS = {
    0: bytes(14),
    1: bytes((i * 73 + 41) & 0xff for i in range(14)),
}
# operand-byte boundary fillings: the byte(s) right after the 16-bit pattern take field-boundary values (5-, 6-, 7-, 8-bit
# signed/unsigned limits); only one representative per (mnemonic, operand shape) is re-assembled for these
BOUNDARY_BYTES = [0x0f, 0x10, 0x11, 0x1f, 0x20, 0x3f, 0x40, 0x7f, 0x80, 0x81, 0xf0, 0xff]
for _i, _b in enumerate(BOUNDARY_BYTES):
    TAILS[10 + _i] = bytes([_b]) + bytes(13)            # boundary value in the first operand byte
    TAILS[30 + _i] = bytes([0, _b]) + bytes(12)         # ... in the second operand byte (16-bit operands, high/low byte)
BOUNDARY_TAIL_IDS = sorted(k for k in TAILS if k >= 10)
A = 0x1000
POS2_EXTRA = {"dspic", "pic24"}


def positions(c):
    if (c["endian"] == 0 and (c["align"] >= 4 or c["bpa"] == 4)) or c["name"] in POS2_EXTRA:
        return [0, 2]
    return [0]


def pattern_bytes(p, pos, tail):
    return tail[:pos] + bytes([p >> 8, p & 255]) + tail[pos:]


def inst_id(pos, tail_id, p):
    return "p%dt%d.%04x" % (pos, tail_id, p)


def canon(text):
    m = re.search(r"\s--\s+(\S.*)$", text)
    return m.group(1) if m else text


NUM_RE = re.compile(r"(?<![a-z_0-9.$])-?\d+(?![a-z_0-9])")


def same_modulo(n1, n2):
    """True if two normalised texts differ only in numbers that are the signed/unsigned spellings of one
    8/16/32/64-bit value (e.g. `#-1` vs `#65535`): the same operand after numeric normalisation."""
    if NUM_RE.sub("#", n1) != NUM_RE.sub("#", n2):
        return False
    a = [int(x) for x in NUM_RE.findall(n1)]
    b = [int(x) for x in NUM_RE.findall(n2)]
    if len(a) != len(b):
        return False
    for x, y in zip(a, b):
        if x == y:
            continue
        lo, hi = min(x, y), max(x, y)
        if lo < 0 and (hi - lo) in (1 << 8, 1 << 16, 1 << 32, 1 << 64) and hi < (hi - lo):
            continue
        return False
    return True


def primary(text):
    """the rendering in front of an `alias  --  canonical form` annotation"""
    return re.sub(r"\s--\s+\S.*$", "", text)


def roundtrip(vd, cpu, bpa, text, W):
    """-> (status, detail).  status in accepted-same, rejected, violation kinds."""
    r1 = rt.asm_text(vd, cpu, A, text, bpa, delay_nop=False)
    if not r1["ok"]:
        st = rt.strip_annotations(text)
        if st != text:
            r1 = rt.asm_text(vd, cpu, A, st, bpa, delay_nop=False)
    if not r1["ok"] or not r1["bytes"]:
        return "rejected", None
    if r1["lo"] != A:
        return "moved", None
    W2 = r1["bytes"]
    if W2 == W:
        return "same-bytes", None
    w = rt.walk(vd, cpu, A, W2)
    if not w:
        return "rejected", None
    t2 = "; ".join(x[2] for x in w)
    n1, n2 = rt.norm_text(text), rt.norm_text(t2)
    if n1 == n2 or same_modulo(n1, n2):
        return "same-text", None
    if " -- " in text and " -- " in t2 and len(w) == 1:
        # both decode to the same alias (e.g. msp430 `nop`): the instruction shown to the user is unchanged
        p1 = rt.norm_text(primary(text) + " ")
        p2 = rt.norm_text(primary(t2) + " ")
        if p1 == p2:
            return "same-text", None
    m1, m2 = corpus.mnemonic(canon(text)), corpus.mnemonic(canon(t2))
    if m1 == m2:
        return "operands-changed", {"T": text, "W": W.hex(), "W2": W2.hex(), "T2": t2}
    # different mnemonic: alias unless T' itself assembles to something else
    r3 = rt.asm_text(vd, cpu, A, w[0][2] if len(w) == 1 else "\n  ".join(x[2] for x in w), bpa, delay_nop=False)
    if not r3["ok"]:
        r3 = rt.asm_text(vd, cpu, A, "\n  ".join(rt.strip_annotations(x[2]) for x in w), bpa, delay_nop=False)
    if not r3["ok"]:
        return "alias-unverifiable", None
    if r3["bytes"] == W2:
        return "alias", None
    return "mnemonic-changed", {"T": text, "W": W.hex(), "W2": W2.hex(), "T2": t2, "W3": r3["bytes"].hex()}


def work(item):
    cpu, bpa, pos, tail_id, mode, seed, k, explicit = item
    vd = core.get_vdrv(20)
    vd.set_timeout(3)
    tail = TAILS[tail_id]
    hangs = 0
    out = {"cpu": cpu, "pos": pos, "tail_id": tail_id, "stats": {}, "viol": [], "nt": set(), "decoded": 0, "samples": []}
    try:
        r = vd.sweep(cpu, A, 0, 65536, tail, 1, 0, pos)
    except driver.Died as e:
        out["sweep_died"] = core.crash_info(e)["sig"]
        return out
    rows = r["rows"]
    cand = []
    if explicit is not None:
        cand = [p for p in explicit]
    else:
        byshape = {}
        for p, (n, t) in enumerate(rows):
            if n <= 0 or rt.is_unknown(t):
                continue
            out["decoded"] += 1
            if mode == "all":
                cand.append(p)
            else:
                key = (corpus.mnemonic(t), corpus.shape(t))
                if mode == "reps0":
                    # the same text shape can come from different encodings (6809 5-bit vs 8-bit offset postbytes):
                    # the returned length separates them, and only the longer ones contain the boundary byte
                    key = key + (n,)
                byshape.setdefault(key, []).append(p)
        if mode != "all":
            rng = random.Random(seed * 1000003 + zlib.crc32(("%s.%d.%d" % (cpu, pos, tail_id)).encode()))
            for key in sorted(byshape):
                ps = byshape[key]
                cand.append(ps[0])
                if len(ps) > 1 and k > 0:
                    cand += rng.sample(ps[1:], min(k, len(ps) - 1))
            cap = 2500 if mode != "reps0" else 500
            if len(cand) > cap:
                first = [byshape[key][0] for key in sorted(byshape)]
                if mode != "reps0":
                    rng.shuffle(first)
                cand = first[:cap]
    st = out["stats"]
    for p in cand:
        n, t = rows[p]
        if n <= 0 or rt.is_unknown(t):
            continue
        if hangs >= 6 and explicit is None:
            st["skipped-after-hangs"] = st.get("skipped-after-hangs", 0) + 1
            continue
        W = pattern_bytes(p, pos, tail)[:n]
        try:
            status, det = roundtrip(vd, cpu, bpa, t, W)
        except driver.Died as e:
            ci = core.crash_info(e)
            if ci["kind"] == "hang":
                hangs += 1
            if ci["kind"] in ("inconclusive", "lost"):
                st["inconclusive"] = st.get("inconclusive", 0) + 1
            else:
                st["crash"] = st.get("crash", 0) + 1
                out["viol"].append(("%s/%s/reassembly-%s" % (cpu, corpus.mnemonic(t), ci["sig"]), inst_id(pos, tail_id, p),
                                    {"cpu": cpu, "pos": pos, "tail_id": tail_id, "pattern": p},
                                    "%s: assembling the disassembly `%s`: %s" % (cpu, t, ci["sig"])))
            continue
        st[status] = st.get(status, 0) + 1
        if status in ("same-bytes", "same-text", "alias"):
            out["nt"].add((cpu, corpus.mnemonic(t)))
            if len(out["samples"]) < 1:
                out["samples"].append({"cpu": cpu, "bytes": W.hex(), "text": t, "status": status})
        if det is not None:
            out["viol"].append(("%s/%s/%s" % (cpu, corpus.mnemonic(t), status), inst_id(pos, tail_id, p),
                                {"cpu": cpu, "pos": pos, "tail_id": tail_id, "pattern": p},
                                "%s: bytes %s = `%s` re-assemble to %s = `%s`" % (cpu, det["W"], det["T"], det["W2"], det["T2"])))
    out["nt"] = sorted(out["nt"])
    return out


def items_for(cpus, tier, seed):
    items = []
    quick = tier == "quick"
    for c in cpus:
        for pos in positions(c):
            for tail_id in ([1] if quick else [0, 1]):
                items.append((c["name"], c["bpa"], pos, tail_id, "reps" if quick else "all", seed, 2, None))
        # deterministic in both tiers: representatives only (k = 0, no seeded sampling)
        for tail_id in BOUNDARY_TAIL_IDS:
            items.append((c["name"], c["bpa"], 0, tail_id, "reps0", 0, 0, None))
    return items


def consume(run, r, totals):
    cpu = r["cpu"]
    if "sweep_died" in r:
        run.violation("%s/sweep-%s" % (cpu, r["sweep_died"]), {"cpu": cpu, "pos": r["pos"], "tail_id": r["tail_id"], "pattern": None},
                      "%s: decode sweep died: %s" % (cpu, r["sweep_died"]))
        return
    n = sum(r["stats"].values())
    run.count(n)
    for k, v in r["stats"].items():
        totals[k] = totals.get(k, 0) + v
    totals.setdefault("per_cpu", {}).setdefault(cpu, {})
    pc = totals["per_cpu"][cpu]
    for k, v in r["stats"].items():
        pc[k] = pc.get(k, 0) + v
    for x in r["nt"]:
        run.nt(tuple(x))
    for s in r["samples"]:
        run.sample(s, limit=8)
    for key, inst, case, desc in r["viol"]:
        run.violation(key, case, desc, instance=inst)
    for _ in range(r["stats"].get("inconclusive", 0)):
        run.inconc("wall watchdog in re-assembly", cpu)


def main(run):
    run.build("san")
    vd = driver.Vdrv(core.ARTS["san"]["vdrv"])
    cpus = vd.cpus()
    vd.close()
    totals = {}
    for r in core.pmap(work, items_for(cpus, run.tier, run.seed), chunk=1):
        if run.handle_common(r):
            continue
        consume(run, r, totals)
    per_cpu = totals.pop("per_cpu", {})
    run.cov["status_counts"] = totals
    run.cov["per_cpu"] = per_cpu
    run.cov["cpus_with_accepted_reassembly"] = len({c for c, _ in run.nontrivial})
    run.exhaustive = run.tier == "thorough"
    run.assumptions = ["a rendering the assembler rejects is vacuous (the statement is conditional on acceptance)",
                       "a different mnemonic is accepted as an alias only if that rendering assembles back to the same bytes",
                       "32-bit spaces are covered through the 16-bit window at byte 0 and byte 2 with two fixed fillings"]
    run.require(">= 50 CPUs with a compared re-assembly", run.cov["cpus_with_accepted_reassembly"] >= 50)
    return run.finish(lambda cs: replay_keys(run, cs))


def replay_keys(run, cases):
    vd = driver.Vdrv(core.ARTS["san"]["vdrv"])
    cpus = {c["name"]: c for c in vd.cpus()}
    vd.close()
    items = []
    for c in cases:
        if c.get("pattern") is None:
            items.append(None)
            continue
        items.append((c["cpu"], cpus[c["cpu"]]["bpa"], c["pos"], c["tail_id"], "explicit", 0, 0, [c["pattern"]]))
    res = []
    real = [i for i in items if i is not None]
    got = {}
    for r in core.pmap(work, real, chunk=1):
        if "cpu" in r:
            got.setdefault((r["cpu"], r["pos"], r["tail_id"]), set()).update(k for k, _, _, _ in r.get("viol", []))
    for c, it in zip(cases, items):
        if it is None:
            res.append(set())
        else:
            res.append(got.get((c["cpu"], c["pos"], c["tail_id"]), set()))
    return res


def replay_cli(doc, seed):
    run = core.Run("C07", "quick", seed, RULE)
    run.build("san")
    keys = replay_keys(run, [doc.get("case", doc)])[0]
    if keys:
        print("VIOLATION property=C07 replay=- keys=%s" % sorted(keys))
        return 1
    print("replay: no violation")
    return 0
