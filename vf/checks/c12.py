"""C12 - failure is atomic: exit status, diagnostics and output file agree.

Monitor: the real naken_asm CLI (sanitizer build) is run on valid generated
programs and on the same programs with one single-point corruption; a stale
file is planted at the output path before every run.  After each run the
consistency triple (exit status S, diagnostics D on stdout, output file F) is
checked against the rules of the property statement.
"""
import os
import random
import re
import shutil
import tempfile

from .. import core, proc
from ..fmt import decode
from ..gen import corpus

RULE = ("valid programs (3 CPUs quick / every corpus CPU thorough; corpus instructions + .db/.dw/.ascii data + labels) in 7 shapes "
        "(plain, rich = macro+include+repeat, body inside an invoked macro, inside an included file, inside an active .if, "
        "inside .repeat) x 18 certainly-erroneous single-point corruptions (unknown mnemonic/directive, undefined symbol, "
        "duplicate label, .db 70000, 1/0, unterminated .if/.macro/.repeat/string/comment, stray .endif/.else/.endm/.endr, "
        "duplicate .define, malformed .if) + 2 CPU-syntax corruptions (extra/missing operands; triple rules only) x insertion "
        "slot (first/middle/last at top level or inside the construct, before/after a conditional) x -type hex/bin/elf, "
        "stale output file planted before each run. distinct_nontrivial = distinct (corruption class, position class, "
        "construct) triples with at least one completed run whose (S, D, F) triple was checked.")

TMP = os.path.join(core.VERIF, ".work", "tmp")
STALE = b"STALE-OUTPUT-OF-AN-EARLIER-RUN\n"
TYPES = ["hex", "bin", "elf"]
CPUS_Q = ["msp430", "z80", "68000"]
SKIP_CPUS = ("8051", "epiphany")     # need their own include files to assemble the corpus lines

# (class, lines, certainly erroneous independent of CPU syntax)
CORRUPTIONS = [
    ("unknown-mnemonic", ["  qzxv"], True),
    ("unknown-directive", [".qzxv 1"], True),
    ("undefined-symbol", ["  .dw undef_qz9"], True),
    ("duplicate-label", ["L0:"], True),
    ("db-range", ["  .db 70000"], True),
    ("div-zero", ["  .dw 1/0"], True),
    ("unterm-if", [".if 1"], True),
    ("unterm-macro", [".macro zz9"], True),
    ("unterm-repeat", [".repeat 2"], True),
    ("unterm-string", ['  .db "abc'], True),
    ("unterm-comment", ["/* abc"], True),
    ("stray-endif", [".endif"], True),
    ("stray-else", [".else"], True),
    ("stray-endm", [".endm"], True),
    ("stray-endr", [".endr"], True),
    ("dup-define", [".define QZ9 1", ".define QZ9 1"], True),
    ("malformed-if", [".if (", ".endif"], True),
    ("undefined-in-db", ["  .db undef_qz8 + 1"], True),
    ("extra-operand", None, False),
    ("missing-operand", None, False),
]
CERTAIN = {c[0]: c[2] for c in CORRUPTIONS}

# slots per shape: (slot id, construct, position class)
SHAPES = {
    "plain": [("first", "top", "first"), ("middle", "top", "middle"), ("last", "top", "last")],
    "rich": [("first", "top-rich", "first"), ("middle", "top-rich", "middle"), ("last", "top-rich", "last")],
    "macro": [("b0", "in-macro", "first"), ("b1", "in-macro", "middle"), ("b2", "in-macro", "last")],
    "include": [("b0", "in-include", "first"), ("b1", "in-include", "middle"), ("b2", "in-include", "last")],
    "cond": [("b0", "in-conditional", "first"), ("b1", "in-conditional", "middle"), ("b2", "in-conditional", "last"),
             ("first", "before-conditional", "first"), ("last", "after-conditional", "last")],
    "repeat": [("b0", "in-repeat", "first"), ("b1", "in-repeat", "middle"), ("b2", "in-repeat", "last")],
}

BOILER = re.compile(r"^(Pass [12]\.\.\.|Warning:|\*\* Errors\.\.\. bailing out|\*\*\* Failed \*\*\*|including file |Trying )")
DIAG = re.compile(r"error|Cannot open|Unknown escape|Illegal number|Unterminated|out of range|already defined", re.I)


def build_files(cpu, instrs, shape, variant, slot=None, ins=None):
    """-> {filename: text}.  instrs: 4 instruction texts.  The corruption lines `ins` go to `slot`."""
    i0, i1, i2, i3 = ["  " + t for t in instrs]
    pre = ["L0:", ".export L0", i0, "  .db 1, 2, 3, 4"]   # an export: the ELF writer has a zero-length VLA without one (C03 finding)
    body = [i1, "  .dw 0x1234, 0x5678", i2]
    post = ["L1:", '  .ascii "abcd"', i3, "  .dw L0"]
    ins = ins or []

    def put(lines, at):
        # at: b0/b1/b2 inside the body
        k = {"b0": 0, "b1": 2, "b2": len(lines)}[at]
        return lines[:k] + ins + lines[k:]

    files = {}
    b = put(body, slot) if slot in ("b0", "b1", "b2") else body
    top_first = ins if slot == "first" else []
    top_last = ins if slot == "last" else []
    mid = []
    if shape == "plain":
        mid = body[:1] + (ins if slot == "middle" else []) + body[1:]
    elif shape == "rich":
        files["c12a.inc"] = "  .db 9, 8, 7, 6\n"
        mid = ([".macro m9(a)", "  .dw a"] + body[:1] + [".endm", '.include "c12a.inc"'] + (ins if slot == "middle" else []) +
               ["  m9(5)", ".repeat 2"] + body[1:2] + [".endr"] + body[2:])
    elif shape == "macro":
        if variant & 1:
            mid = [".macro m9(a)"] + b + ["  .dw a", ".endm", "  m9(7)"]
        else:
            mid = [".macro m9"] + b + [".endm", "  m9"]
    elif shape == "include":
        files["c12b.inc"] = "\n".join(b) + "\n"
        mid = ['.include "c12b.inc"']
    elif shape == "cond":
        if variant & 1:
            mid = [".define HAVE_QZ 1", ".ifdef HAVE_QZ"] + b + [".endif"]
        else:
            mid = [".if 1"] + b + [".endif"]
    elif shape == "repeat":
        mid = [".repeat 2"] + b + [".endr"]
    lines = [".%s" % cpu] + top_first + pre + mid + post + top_last
    files["p.asm"] = "\n".join(lines) + "\n"
    return files


def operand_corruption(cls, instr):
    t = instr.strip()
    if cls == "extra-operand":
        return ["  " + t + ", 1, 2, (3"]
    mn = t.split()[0]
    return ["  " + mn + " ,"]


def diagnostics(stdout):
    """(strict diagnostics, lenient diagnostics) printed between 'Pass 1...' and 'Program Info:'."""
    strict, lenient = [], []
    started = False
    for ln in stdout.splitlines():
        s = ln.strip()
        if s.startswith("Pass 1..."):
            started = True
            continue
        if s.startswith("Program Info:"):
            break
        if not s:
            continue
        if BOILER.match(s):
            continue
        if DIAG.search(s):
            strict.append(s)
        if started:
            lenient.append(s)
    if not started:
        # died before pass 1 (cannot open input etc.): everything counts
        lenient = [l.strip() for l in stdout.splitlines() if DIAG.search(l)]
    return strict, lenient


def run_one(exe, d, files, typ, certain):
    """Run the CLI once with a stale output file planted; -> (list of (rule, desc), facts dict) or ('inconclusive', why)."""
    for fn, txt in files.items():
        core.write_tmp(d, fn, txt)
    out = "out." + typ
    outp = os.path.join(d, out)
    with open(outp, "wb") as f:
        f.write(STALE)
    o = proc.run([exe, "-type", typ, "-o", out, "p.asm"], cwd=d, cpu_s=10, fsize_mb=64)
    if o.san and o.san["kind"] == "ubsan:vla-bound" and "write_elf.cpp" in o.san["sig"]:
        # C03's listed finding: zero-length VLA in the ELF writer when the program exports nothing (here: the corruption
        # swallowed the .export).  UBSan kills the process inside file_write, so the triple of this run is not observable.
        if os.path.exists(outp):
            os.unlink(outp)
        return "skip", "elf-writer-vla"
    if o.wall_killed:
        return None, "wall-watchdog"
    v = []
    exists = os.path.exists(outp)
    data = open(outp, "rb").read() if exists else None
    stale = exists and data == STALE
    strict, lenient = diagnostics(o.stdout)
    facts = {"S": o.status, "sig": o.signal, "F": "stale" if stale else "new" if exists else "absent",
             "D": strict[:2] or lenient[:1]}
    if exists:
        os.unlink(outp)
    if o.san:
        v.append(("crash:" + o.san["sig"], "sanitizer report %s" % o.san["sig"]))
        return v, facts
    if o.timed_out:
        v.append(("hang", "no exit within 10 s CPU"))
        return v, facts
    if o.signal:
        v.append(("crash:signal%d" % o.signal, "killed by signal %d" % o.signal))
        return v, facts
    if o.status == 0:
        if strict:
            v.append(("exit0-with-error-diagnostic", "exit status 0 although it printed: %s" % strict[0][:100]))
        elif certain:
            v.append(("erroneous-input-accepted-silently", "exit status 0, no diagnostic, output written for an erroneous source"))
        if not exists or stale:
            v.append(("exit0-without-output", "exit status 0 but the output file is %s" % ("the stale one" if stale else "missing")))
        else:
            errs = []
            if typ == "hex":
                errs = decode.ihex(data)[2]
            elif typ == "elf" and data[:4] != b"\x7fELF":
                errs = ["no ELF magic"]      # section-level well-formedness of ELF files is C03's subject (listed: bpa-2 CPUs)
            if errs:
                v.append(("exit0-output-incomplete", "exit status 0 but the %s file does not decode: %s" % (typ, str(errs[0])[:100])))
    else:
        if exists:
            v.append(("failure-leaves-%s-output" % ("stale" if stale else "new"),
                      "exit status %s but %s file is at the output path" % (o.status, "the earlier run's" if stale else "a freshly written")))
        if not lenient:
            v.append(("failure-without-diagnostic", "exit status %s and no diagnostic on stdout" % o.status))
    return v, facts


def make_case(cpu, files, typ, cls, construct, pos, certain):
    return {"cpu": cpu, "files": files, "type": typ, "cls": cls, "construct": construct, "pos": pos, "certain": certain}


def work(item):
    exe, cpu, instrs, shape, variant, slotinfo, types, classes = item
    slot, construct, pos = slotinfo
    os.makedirs(TMP, exist_ok=True)
    d = tempfile.mkdtemp(prefix="c12_", dir=TMP)
    res = {"cpu": cpu, "shape": shape, "construct": construct, "pos": pos, "base_ok": False, "records": [], "inconc": [],
           "base_viol": [], "sample": None}
    try:
        base = build_files(cpu, instrs, shape, variant)
        # the un-corrupted program must be valid; its own triple is checked too
        ok = True
        for t in types:
            v, facts = run_one(exe, d, base, t, False)
            if v == "skip":
                ok = False
                break
            if v is None:
                res["inconc"].append((facts, make_case(cpu, base, t, "valid", construct, pos, False)))
                ok = False
                continue
            if facts["S"] != 0 and not v:
                ok = False      # cleanly rejected: not a valid program for this CPU, nothing to corrupt
                res["reject"] = facts["D"]
                break
            if v:
                ok = False
                res["base_viol"].append((t, v, facts, make_case(cpu, base, t, "valid", "shape-" + shape, "none", False)))
        res["base_ok"] = ok
        if not ok:
            return res
        for ci, cls in enumerate(classes):
            spec = [c for c in CORRUPTIONS if c[0] == cls][0]
            if cls == "stray-else" and construct == "in-conditional":
                continue    # an .else inside an active .if is legal
            ins = spec[1] if spec[1] is not None else operand_corruption(cls, instrs[(ci + variant) % 4])
            files = build_files(cpu, instrs, shape, variant, slot, ins)
            for t in types:
                v, facts = run_one(exe, d, files, t, spec[2])
                case = make_case(cpu, files, t, cls, construct, pos, spec[2])
                if v == "skip":
                    res["skipped"] = res.get("skipped", 0) + 1
                    continue
                if v is None:
                    res["inconc"].append((facts, case))
                    continue
                res["records"].append((cls, t, [(r, dsc) for r, dsc in v], facts, case if v else None))
                if res["sample"] is None and not v and cls == "undefined-symbol":
                    res["sample"] = {"cpu": cpu, "construct": construct, "class": cls, "type": t, "triple": facts,
                                     "source": files["p.asm"]}
        return res
    finally:
        shutil.rmtree(d, ignore_errors=True)


def pick_instrs(rng, lines):
    cand = [l for l in lines if ":" not in l and '"' not in l and len(l) < 60]
    return rng.sample(cand, 4) if len(cand) >= 4 else None


def gen_items(run):
    quick = run.tier == "quick"
    exe = core.ARTS["san"]["naken_asm"]
    corp = corpus.load()
    rng = run.rng
    classes = [c[0] for c in CORRUPTIONS]
    cpus = CPUS_Q if quick else [c for c in sorted(corp) if c not in SKIP_CPUS]
    nprog = 1 if quick else 2
    items = []
    for ci, cpu in enumerate(cpus):
        for k in range(nprog):
            instrs = pick_instrs(rng, corp[cpu])
            if instrs is None:
                continue
            variant = rng.getrandbits(4)
            for shape in sorted(SHAPES):
                for si, slotinfo in enumerate(SHAPES[shape]):
                    if quick or cpu in CPUS_Q:
                        types = TYPES
                    else:
                        types = [TYPES[(ci + k + si) % 3]]
                    items.append((exe, cpu, instrs, shape, variant, slotinfo, types, classes))
    return items


def key_of(cls, construct, rule):
    if rule.startswith("crash:"):
        return "crash/" + rule[6:]
    return "%s/%s/%s" % (cls, construct, rule)


def consume(run, r, stats):
    if not r["base_ok"]:
        stats["base_programs_not_valid"] = stats.get("base_programs_not_valid", 0) + 1
        for t, v, facts, case in r["base_viol"]:
            run.count()
            for rule, dsc in v:
                run.violation(key_of("valid", case["construct"], rule), case,
                              "%s valid program (%s) -type %s: %s" % (r["cpu"], r["shape"], t, dsc))
    else:
        stats["base_programs_valid"] = stats.get("base_programs_valid", 0) + 1
        run.count(1)
    for why, case in r["inconc"]:
        run.inconc(why, case)
    if r.get("skipped"):
        stats["runs_skipped_elf_writer_vla_report"] = stats.get("runs_skipped_elf_writer_vla_report", 0) + r["skipped"]
    for cls, t, v, facts, case in r["records"]:
        run.count()
        run.nt((cls, r["pos"], r["construct"]))
        stats["runs_" + t] = stats.get("runs_" + t, 0) + 1
        stats["cpus"].add(r["cpu"])
        if facts["S"] == 0:
            stats["corrupted_exit0"] = stats.get("corrupted_exit0", 0) + 1
        else:
            stats["corrupted_exit_nonzero"] = stats.get("corrupted_exit_nonzero", 0) + 1
            if not v:
                stats["clean_failures_stale_file_removed"] = stats.get("clean_failures_stale_file_removed", 0) + 1
        stats.setdefault("by_class", {})
        bc = stats["by_class"].setdefault(cls, [0, 0])
        bc[0] += 1
        bc[1] += 1 if v else 0
        for rule, dsc in v:
            run.violation(key_of(cls, r["construct"], rule), case,
                          "%s %s at %s/%s -type %s: %s" % (r["cpu"], cls, r["construct"], r["pos"], t, dsc))
    if r.get("sample"):
        run.sample(r["sample"], limit=4)


def main(run):
    run.build("san")
    stats = {"cpus": set()}
    items = gen_items(run)
    run.rng.shuffle(items)
    for r in core.pmap(work, items, chunk=1):
        if run.handle_common(r):
            continue
        consume(run, r, stats)
    stats["cpus"] = sorted(stats["cpus"])
    stats["by_class"] = {k: {"runs": a, "runs_violating": b} for k, (a, b) in sorted(stats.get("by_class", {}).items())}
    run.cov.update(stats)
    run.assumptions = [
        "a diagnostic (for 'exit 0 with a diagnostic') is a stdout line between 'Pass 1...' and 'Program Info:' matching "
        "/error|Cannot open|Unknown escape|Illegal number|Unterminated|out of range|already defined/i, other than the summary "
        "lines '** Errors... bailing out' / '*** Failed ***' and warnings; for 'failure without diagnostic' any non-boilerplate "
        "line counts",
        "'complete output' is checked as: file exists, differs from the planted stale file and (hex, elf) decodes without "
        "format errors; byte-level completeness of valid programs is C03/C01's subject",
        "an .else inserted inside an active .if is legal and excluded; extra/missing-operand corruptions are not assumed "
        "erroneous (only the triple rules apply)",
        "programs whose un-corrupted form the CPU's assembler rejects cleanly are dropped (counted in base_programs_not_valid)",
        "runs in which UBSan reports the zero-length VLA of the ELF writer (C03's listed finding; only when the corruption removed "
        "the program's .export) are skipped and counted: the sanitizer kills the process inside file_write",
        "CPUs 8051 and epiphany (corpus lines need the CPU's include file) are not explored",
    ]
    nruns = sum(v for k, v in stats.items() if k.startswith("runs_"))
    run.require(">= 800 corrupted runs evaluated", nruns >= 800)
    run.require(">= 200 failures observed with exit!=0, a diagnostic and the planted stale file removed",
                stats.get("clean_failures_stale_file_removed", 0) >= 200)
    run.require("all three output types exercised", all(stats.get("runs_" + t, 0) > 50 for t in TYPES))
    run.require(">= 12 valid base programs", stats.get("base_programs_valid", 0) >= 12)
    return run.finish(lambda cs: replay_keys(run, cs))


def eval_case(exe, c):
    os.makedirs(TMP, exist_ok=True)
    d = tempfile.mkdtemp(prefix="c12r_", dir=TMP)
    try:
        v, facts = run_one(exe, d, c["files"], c["type"], c.get("certain", False))
        if v is None or v == "skip":
            return set(), facts
        return set(key_of(c["cls"], c["construct"], rule) for rule, _ in v), facts
    finally:
        shutil.rmtree(d, ignore_errors=True)


def replay_keys(run, cases):
    exe = core.ARTS["san"]["naken_asm"]
    return [eval_case(exe, c)[0] for c in cases]


def replay_cli(doc, seed):
    run = core.Run("C12", "quick", seed, RULE)
    run.build("san")
    keys, facts = eval_case(core.ARTS["san"]["naken_asm"], doc.get("case", doc))
    print("triple: %s" % (facts,))
    if keys:
        print("VIOLATION property=C12 replay=- keys=%s" % sorted(keys))
        return 1
    print("replay: no violation")
    return 0
