"""C02 - two-pass consistency of label addresses and sizes.

Two monitors per accepted program:
  H1 (online, hooked at the label-binding site): in pass 2 the location counter
     at every label equals the address pass 1 recorded for it;
  black box: every label is followed by a unique 8-byte marker datum and the
     output image holds that marker at the label's symbol-table address.
"""
import random
import re
import zlib

from .. import core, driver, rt
from ..gen import corpus

RULE = ("enumerated: every corpus instruction form whose numeric operand can be replaced by a label (all CPUs with a "
        "tests/comparison file) x {forward, backward reference} x label value class {0x0, 0x10, 0x1230, 0x9000, 0x12340} plus forward references to a label at address 0 x {-optimize "
        "on, off}: one program per combination with labels placed directly after the instructions under test, each label "
        "followed by a unique marker; quick = seeded sample of the forms, thorough = all; plus seeded programs mixing "
        "several forms of one CPU. distinct_nontrivial = distinct (cpu, mnemonic, operand shape, direction, value class) "
        "with an accepted program whose labels were all checked.")

BASES = [0x10, 0x1230, 0x12340, 0x0, 0x9000]
# "fwdlow": the label is defined later in the source but at address 0 (`.org 0` after the code), i.e. a forward
# reference whose final value would select the shortest operand form
CONFIGS = [(d, b, o) for d in ("fwd", "back") for b in BASES for o in (0, 1)] + [("fwdlow", 0x1230, o) for o in (0, 1)]


def iid(cpu, line, k, d, b, o):
    return "%08x" % zlib.crc32(("%s|%s|%d|%s|%x|%d" % (cpu, line, k, d, b, o)).encode())


def marker(n):
    return 0xA5C3000000000000 | (n & 0xffffffffffff)


def build_program(cpu, bpa, uses, direction, base, case_no):
    """uses: list of instruction texts already referring to the label `tgt`."""
    src = [".%s" % cpu]
    if cpu == "epiphany":
        src.append('.include "epiphany/epiphany.inc"')
    if cpu == "8051":
        src.append('.include "8051/8051.inc"')
    src.append(".org 0x%x" % (base // bpa))
    labels = []
    n = 0
    if direction == "back":
        src.append("tgt:")
        src.append("  .dc64 0x%x" % marker(case_no * 64 + n))
        labels.append(("tgt", marker(case_no * 64 + n)))
        n += 1
    for i, ins in enumerate(uses):
        src.append("  .align_bytes 16")
        src.append("  " + ins)
        name = "after%d" % i
        src.append("%s:" % name)
        src.append("  .dc64 0x%x" % marker(case_no * 64 + n))
        labels.append((name, marker(case_no * 64 + n)))
        n += 1
    if direction == "fwdlow":
        src.append(".org 0")
    if direction in ("fwd", "fwdlow"):
        src.append("  .align_bytes 16")
        src.append("tgt:")
        src.append("  .dc64 0x%x" % marker(case_no * 64 + n))
        labels.append(("tgt", marker(case_no * 64 + n)))
    return "\n".join(src) + "\n", labels


def check_program(vd, cpu, bpa, src, labels, opt):
    """-> (status, [(kind, desc)])"""
    opts = rt.INC if corpus.needs_include(cpu) else ""
    if opt:
        opts = (opts + ",opt").strip(",")
    r = vd.asm(src, opts)
    if r["rc"] != 0 or r["exit"]:
        return "rejected", [], r
    viol = []
    # H1: pass-2 location counter vs the address recorded by pass 1
    p2 = [e for e in r["ev"] if e["pass"] == 2]
    for e in p2:
        if e["found"] == 0 and e["value"] != e["recorded"]:
            viol.append(("label-moved", "label `%s` bound at 0x%x in pass 1 but the location counter is 0x%x in pass 2" %
                         (e["name"], e["recorded"], e["value"])))
    syms = {s[0]: s[1] for s in r["syms"]}
    big = r["endian"] == 1
    for name, m in labels:
        if name not in syms:
            viol.append(("label-missing", "label `%s` not in the symbol table" % name))
            continue
        a = syms[name] * bpa
        want = m.to_bytes(8, "big" if big else "little")
        got = bytes(r["img"].get(a + i, 0) for i in range(8))
        if got != want:
            viol.append(("marker-not-at-label", "label `%s` = 0x%x but the bytes placed after it (%s) are not there (found %s)" %
                         (name, syms[name], want.hex(), got.hex())))
    return "checked", viol, r


def labelable(text):
    if re.match(r"^\s*[A-Za-z_][A-Za-z_0-9]*:", text):
        return False
    return True


def work(item):
    cpu, bpa, forms, mixes = item
    vd = core.get_vdrv(20)
    vd.set_timeout(3)
    out = {"cpu": cpu, "stats": {}, "viol": [], "nt": set(), "sample": None, "events": 0}
    st = out["stats"]
    case_no = 0

    def run_one(uses, d, b, o, tag, inst, case):
        nonlocal case_no
        case_no += 1
        src, labels = build_program(cpu, bpa, uses, d, b, case_no)
        try:
            status, viol, r = check_program(vd, cpu, bpa, src, labels, o)
        except driver.Died as e:
            ci = core.crash_info(e)
            if ci["kind"] in ("inconclusive", "lost"):
                st["inconclusive"] = st.get("inconclusive", 0) + 1
            else:
                st["crash"] = st.get("crash", 0) + 1
            return None
        st[status] = st.get(status, 0) + 1
        if status == "checked":
            out["events"] += len(r["ev"])
            if out["sample"] is None and not viol:
                out["sample"] = {"cpu": cpu, "source": src, "optimize": o, "labels_checked": len(labels), "h1_events": len(r["ev"])}
        for kind, desc in viol[:1]:
            out["viol"].append(("%s/%s/%s" % (cpu, tag, kind), inst, case, "%s: %s [%s, base 0x%x, optimize=%d]: %s" %
                                (cpu, uses[0], d, b, o, desc)))
        return status, viol

    clean = []
    for line, k in forms:
        lits = corpus.literals(line)
        if k >= len(lits):
            continue
        m = lits[k]
        use = line[:m.start()] + "tgt" + line[m.end():]
        any_clean = True
        any_checked = False
        for d, b, o in CONFIGS:
            res = run_one([use, use], d, b, o, corpus.mnemonic(line), iid(cpu, line, k, d, b, o),
                          {"cpu": cpu, "line": line, "k": k, "dir": d, "base": b, "opt": o})
            if res is None:
                any_clean = False
                continue
            status, viol = res
            if status == "checked":
                any_checked = True
                out["nt"].add((cpu, corpus.mnemonic(line), corpus.shape(line), d, b))
                if viol:
                    any_clean = False
        if any_checked and any_clean:
            clean.append(use)
    # seeded mixes of individually clean forms
    for seed in mixes:
        if len(clean) < 2:
            break
        rng = random.Random(seed)
        uses = [rng.choice(clean) for _ in range(rng.randint(3, 8))]
        d = rng.choice(["fwd", "back"])
        b = rng.choice(BASES)
        o = rng.choice([0, 1])
        res = run_one(uses, d, b, o, "mix", None, {"cpu": cpu, "uses": uses, "dir": d, "base": b, "opt": o})
        if res and res[0] == "checked":
            st["mix-checked"] = st.get("mix-checked", 0) + 1
    out["nt"] = sorted(out["nt"])
    return out


def gen_items(run, cpuinfo):
    C = corpus.load()
    quick = run.tier == "quick"
    items = []
    for cpu in sorted(C):
        if cpu not in cpuinfo:
            continue
        forms = []
        seen = set()
        for ln in C[cpu]:
            if not labelable(ln):
                continue
            for k, m in enumerate(corpus.literals(ln)):
                key = (corpus.mnemonic(ln), corpus.shape(ln), k)
                if key in seen:
                    continue
                seen.add(key)
                forms.append((ln, k))
        rng = random.Random(run.seed * 15485863 + zlib.crc32(cpu.encode()))
        if quick:
            forms = rng.sample(forms, min(max(8, len(forms) // 2), len(forms)))
        per = 6
        for i in range(0, len(forms), per):
            mixes = [rng.getrandbits(32) for _ in range(3 if quick else 10)]
            items.append((cpu, cpuinfo[cpu]["bpa"], forms[i:i + per], mixes))
    return items


def consume(run, r, totals):
    run.count(sum(v for k, v in r["stats"].items()))
    pc = totals.setdefault(r["cpu"], {})
    for k, v in r["stats"].items():
        pc[k] = pc.get(k, 0) + v
    pc["h1_events"] = pc.get("h1_events", 0) + r["events"]
    for x in r["nt"]:
        run.nt(tuple(x))
    if r["sample"]:
        run.sample(r["sample"], limit=3)
    for key, inst, case, desc in r["viol"]:
        run.violation(key, case, desc, instance=inst)
    for _ in range(r["stats"].get("inconclusive", 0)):
        run.inconc("wall watchdog", r["cpu"])


def main(run):
    run.build("san")
    vd = driver.Vdrv(core.ARTS["san"]["vdrv"])
    cpuinfo = {c["name"]: c for c in vd.cpus()}
    vd.close()
    totals = {}
    for r in core.pmap(work, gen_items(run, cpuinfo), chunk=1):
        if run.handle_common(r):
            continue
        consume(run, r, totals)
    run.cov["per_cpu"] = totals
    ev = sum(pc.get("h1_events", 0) for pc in totals.values())
    run.cov["h1_label_events_observed"] = ev
    run.cov["programs_checked"] = sum(pc.get("checked", 0) for pc in totals.values())
    run.cov["cpus_with_checked_programs"] = len([c for c, pc in totals.items() if pc.get("checked")])
    run.assumptions = ["labels are placed after instructions and before data directives (data directives never pad)",
                       "an instruction is preceded by .align_bytes 16 so that silent alignment padding cannot be confused with "
                       "a size change", "conditionals/macros depending on later symbols are never generated"]
    run.require("H1 label events observed", ev > 1000)
    run.require(">= 40 CPUs with checked programs", run.cov["cpus_with_checked_programs"] >= 40)
    return run.finish(lambda cs: replay_keys(run, cs))


def replay_keys(run, cases):
    vd = driver.Vdrv(core.ARTS["san"]["vdrv"])
    cpuinfo = {c["name"]: c for c in vd.cpus()}
    out = []
    for c in cases:
        keys = set()
        try:
            bpa = cpuinfo[c["cpu"]]["bpa"]
            if "line" in c:
                lits = corpus.literals(c["line"])
                m = lits[c["k"]]
                use = c["line"][:m.start()] + "tgt" + c["line"][m.end():]
                uses = [use, use]
                tag = corpus.mnemonic(c["line"])
            else:
                uses = c["uses"]
                tag = "mix"
            src, labels = build_program(c["cpu"], bpa, uses, c["dir"], c["base"], 1)
            status, viol, r = check_program(vd, c["cpu"], bpa, src, labels, c["opt"])
            for kind, desc in viol[:1]:
                keys.add("%s/%s/%s" % (c["cpu"], tag, kind))
        except driver.Died:
            pass
        out.append(keys)
    vd.close()
    return out


def replay_cli(doc, seed):
    run = core.Run("C02", "quick", seed, RULE)
    run.build("san")
    keys = replay_keys(run, [doc.get("case", doc)])[0]
    if keys:
        print("VIOLATION property=C02 replay=- keys=%s" % sorted(keys))
        return 1
    print("replay: no violation")
    return 0
