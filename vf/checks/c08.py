"""C08 - disassembly is total, local and tiles any range.

Monitors:
  A. in-driver sweep over all 65 536 leading 16-bit patterns x tail fillings:
     termination (CPU-time watchdog), NUL-terminated text inside the 128-byte
     buffer (exact-size heap buffer under ASan), returned length >= one
     addressable unit and <= an over-approximated architectural maximum,
     locality (re-decode with two different tails after the returned length).
  B. range tiling: addresses printed by the real disasm_range_<cpu>() compared
     with the walk of the single-instruction decoder.
  C. the same through the real CLI: naken_util -<cpu> -bin -disasm.
"""
import os
import random
import zlib
import re
import shutil
import tempfile

from .. import core, driver, proc

RULE = ("A: per CPU all 65536 leading 16-bit patterns x tail fillings x load addresses, each decoded by the real "
        "single-instruction disassembler in the sanitizer build (exhaustive over the leading 16 bits); "
        "B: fixed and seeded byte ranges printed by the real disasm_range and compared with the decoder walk; "
        "C: naken_util -bin -disasm on generated files. distinct_nontrivial = distinct (cpu, returned length) classes "
        "observed in A plus distinct (cpu, range shape) tilings compared in B.")

# over-approximated longest instruction in bytes (0 = unbounded: table/switch instructions)
MAXLEN = {"java": 0, "webasm": 0, "dotnet": 0}
DEFAULT_MAX = 16

TAILS = {
    0: bytes(14),
    1: bytes((i * 73 + 41) & 0xff for i in range(14)),
    2: bytes([0xff] * 14),
    3: bytes((i * 151 + 7) & 0xff for i in range(14)),
}
ADDRS = {0: 0x1000, 1: 0x0ffc}
CHUNK = 8192

WORKTMP = os.path.join(core.VERIF, ".work", "tmp")
os.makedirs(WORKTMP, exist_ok=True)

OCTAL_ADDR = {"agc", "pdp8"}
NO_RANGE_PARSE = {"tms1000", "tms1100"}


def inst_id(tail_id, addr_id, pat):
    return "t%d.a%d.%04x" % (tail_id, addr_id, pat)


def sweep_item(item):
    cpu, tail_id, addr_id, first, count, tail = item
    vd = core.get_vdrv(10)
    vd.set_timeout(10)
    out = {"cpu": cpu, "bad": [], "hist": {}, "crash": [], "n": 0}
    p = first
    end = first + count
    attempts = 0
    while p < end and attempts < 64:
        attempts += 1
        try:
            r = vd.sweep(cpu, ADDRS[addr_id], p, end - p, tail, 2, MAXLEN.get(cpu, DEFAULT_MAX))
        except driver.Died as e:
            ci = core.crash_info(e)
            cur, phase = e.progress
            if cur is None or cur < p or cur >= end:
                out["crash"].append((None, ci))
                break
            out["crash"].append((cur, ci))
            out["n"] += cur - p + 1
            p = cur + 1
            continue
        for k, v in r["hist"].items():
            out["hist"][k] = out["hist"].get(k, 0) + v
        out["bad"] += r["bad"]
        out["n"] += end - p
        p = end
    out["tail_id"] = tail_id
    out["addr_id"] = addr_id
    return out


# ------------------------------------------------------------------ ranges

def range_specs(cpu, bpa, rng, extra):
    """(range id, start byte, end byte (inclusive), base, bytes).  The fixed part
    does not depend on the seed; `extra` seeded ranges are appended."""
    specs = []
    fixed = random.Random(0xC08)
    base = 0x200 * bpa
    contents = {
        "z": lambda n, r: bytes(n),
        "f": lambda n, r: bytes([0xff] * n),
        "p": lambda n, r: bytes(r.getrandbits(8) for _ in range(n)),
    }
    for kind in ("z", "f", "p", "p"):
        for units in (1, 3, 64, 300):
            n = units * bpa
            data = contents[kind](n + 32, fixed)
            rid = "%s%d.%d" % (kind, units, len(specs))
            specs.append((rid, base, base + n - 1, base, data))
    # page crossing
    data = contents["p"](192, fixed)
    start = 0x10000 - 64
    specs.append(("pagecross", start, start + 127, start, data))
    for i in range(extra):
        units = rng.choice([1, 2, 5, 17, 128, 700])
        n = units * bpa
        data = bytes(rng.getrandbits(8) for _ in range(n + 32))
        st = rng.choice([0, 0x100, 0x1000, 0xff00]) * bpa
        specs.append(("seeded%d" % i, st, st + n - 1, st, data))
    return specs


ADDR_RE = re.compile(r"^\s*(?:0x)?([0-9a-fA-F]{3,8}):")


ADDR_ANY_RE = re.compile(r"0x([0-9a-fA-F]{4,8}):")


def parse_addrs(cpu, out):
    res = []
    if cpu not in OCTAL_ADDR:
        # some formatters forget the newline; addresses are recognised anywhere
        res = [int(m.group(1), 16) for m in ADDR_ANY_RE.finditer(out)]
        if res:
            return res
    for ln in out.split("\n"):
        m = ADDR_RE.match(ln)
        if m:
            try:
                res.append(int(m.group(1), 8 if cpu in OCTAL_ADDR else 16))
            except ValueError:
                pass
    return res


def range_item(item):
    cpu, bpa, specs = item
    vd = core.get_vdrv(10)
    vd.set_timeout(4)
    results = []
    hung = False
    for rid, start, end, base, data in specs:
        res = {"cpu": cpu, "rid": rid, "viol": [], "status": "ok"}
        if rid.startswith("seeded"):
            res["spec"] = [start, end, base, data.hex()]
        if hung:
            res["status"] = "skipped-after-hang"
            results.append(res)
            continue
        try:
            steps = vd.walk(cpu, start, end, base, data)
        except driver.Died as e:
            res["status"] = "walk-died"
            res["viol"].append(("walk-" + core.crash_info(e)["sig"], "walk died"))
            results.append(res)
            continue
        stuck = [s for s in steps if s[1] <= 0]
        try:
            r = vd.disr(cpu, start, end, base, data)
        except driver.Died as e:
            ci = core.crash_info(e)
            if ci["kind"] == "hang":
                res["viol"].append(("range-hang", "disasm_range(0x%x-0x%x) never reaches the end%s" %
                                    (start, end, " (decoder returned %d at 0x%x)" % (stuck[0][1], stuck[0][0]) if stuck else "")))
                res["status"] = "hang"
                hung = True
            elif ci["kind"] in ("inconclusive", "lost"):
                res["status"] = "inconclusive"
            else:
                res["viol"].append(("range-" + ci["sig"], "disasm_range(0x%x-0x%x): %s" % (start, end, ci["sig"])))
                res["status"] = "crash"
            results.append(res)
            continue
        if cpu in NO_RANGE_PARSE or stuck:
            res["status"] = "returned"
            results.append(res)
            continue
        L = parse_addrs(cpu, r["out"])
        # only instructions lying entirely inside [start, end] are required to be shown
        W = [a // bpa for a, n in steps if a + n - 1 <= end]
        if cpu.startswith("ps2_ee_vu"):
            # one VU instruction is an upper/lower pair of 32-bit words printed on one line
            W = [a for a, n in steps if (a - start) % 8 == 0 and a + 7 <= end]
        res["lines"] = len(L)
        res["steps"] = len(W)
        if not L and W:
            res["viol"].append(("range-empty", "disasm_range(0x%x-0x%x) printed no address" % (start, end)))
        elif L:
            Ls = set(L)
            dup = [a for i, a in enumerate(L[1:]) if a <= L[i]]
            if dup:
                res["viol"].append(("range-not-increasing", "address 0x%x printed twice or out of order in range 0x%x-0x%x"
                                    % (dup[0], start // bpa, end // bpa)))
            miss = [a for a in W if a not in Ls]
            if miss:
                res["viol"].append(("range-skips", "instruction at 0x%x (decoder walk) never printed in range 0x%x-0x%x"
                                    % (miss[0], start // bpa, end // bpa)))
            last_end = (steps[-1][0] + steps[-1][1] + bpa - 1) // bpa
            if max(L) >= last_end + 0 and not miss and not dup:
                res["viol"].append(("range-overruns", "printed 0x%x beyond the instruction covering the range end" % max(L)))
        results.append(res)
    return {"ranges": results}


# ------------------------------------------------------------------ CLI

def cli_item(item):
    exe, cpu, name, data = item
    d = tempfile.mkdtemp(prefix="c08_")
    try:
        core.write_tmp(d, "f.bin", data)
        o = proc.run([exe, "-" + cpu, "-bin", "-disasm", "f.bin"], cwd=d, cpu_s=5, stdin_data=b"quit\n")
        viol = []
        if o.san:
            viol.append(("cli-" + o.san["sig"], "naken_util -%s -bin -disasm (%s): %s" % (cpu, name, o.san["sig"])))
        elif o.timed_out or o.signal == 25:
            viol.append(("cli-hang", "naken_util -%s -bin -disasm (%s) exceeded 5 CPU-s (or 256 MB of output) on %d bytes" % (cpu, name, len(data))))
        elif o.signal:
            viol.append(("cli-signal-%d" % o.signal, "naken_util -%s -bin -disasm (%s): signal %d" % (cpu, name, o.signal)))
        status = "inconclusive" if o.wall_killed and not o.timed_out else "ran"
        return {"cli": {"cpu": cpu, "name": name, "viol": viol, "status": status, "lines": o.stdout.count("\n")}}
    finally:
        shutil.rmtree(d, ignore_errors=True)


COVER_CPUS = ["6502", "65816", "z80", "8051", "stm8", "6809", "68hc08", "8048"]
COVER_LAYOUTS = [(0xfffa, 6), (0xfffa, 7), (0xfffa, 8), (0x1fff0, 17), (0x0, 5), (0xff00, 0x101)]


def cover_data(cpu, addr, n):
    r = random.Random(zlib.crc32(("cover:%s:%x:%d" % (cpu, addr, n)).encode()))
    return bytes(r.getrandbits(8) for _ in range(n))


def cli_cover_item(item):
    """whole-image disassembly through the real CLI (`naken_util -<cpu> -bin -address A -disasm`): every
    instruction of the decoder walk that lies inside the loaded image must be printed (range reaches its end)."""
    exe, cpu, addr, n = item
    data = cover_data(cpu, addr, n)
    name = "cover-%x-%d" % (addr, n)
    vd = core.get_vdrv(10)
    vd.set_timeout(4)
    res = {"cover": {"cpu": cpu, "name": name, "addr": addr, "n": n, "viol": [], "status": "ran"}}
    end = addr + n - 1
    try:
        steps = vd.walk(cpu, addr, end, addr, data)
    except driver.Died:
        res["cover"]["status"] = "walk-died"
        return res
    if [s for s in steps if s[1] <= 0]:
        res["cover"]["status"] = "stuck-decoder"
        return res
    d = tempfile.mkdtemp(prefix="c08_", dir=WORKTMP)
    try:
        core.write_tmp(d, "f.bin", data)
        o = proc.run([exe, "-" + cpu, "-bin", "-address", "0x%x" % addr, "-disasm", "f.bin"], cwd=d, cpu_s=5,
                     stdin_data=b"quit\n")
        if o.san or o.signal or o.timed_out:
            res["cover"]["status"] = "died"      # judged by the other CLI cases
            return res
        L = set(parse_addrs(cpu, o.stdout))
        W = [a for a, k in steps if a + k - 1 <= end]
        res["cover"]["steps"] = len(W)
        res["cover"]["lines"] = len(L)
        miss = [a for a in W if a not in L]
        if miss:
            res["cover"]["viol"].append(("cli-range-skips", "naken_util -%s -bin -address 0x%x -disasm on %d bytes: "
                                         "instruction at 0x%x (decoder walk) never printed" % (cpu, addr, n, miss[0])))
        return res
    finally:
        shutil.rmtree(d, ignore_errors=True)


def cli_data(cpu, fname):
    r = random.Random(zlib.crc32(("%s:%s" % (cpu, fname)).encode()))
    if fname == "prand300":
        return bytes(r.getrandbits(8) for _ in range(300))
    if fname == "ff64":
        return bytes([0xff] * 64)
    if fname == "zero64":
        return bytes(64)
    return bytes(r.getrandbits(8) for _ in range(33))


CLI_CPU_FLAG = {"mips": "mips", "65832": None, "msp430x": None, "8041": None, "n64_rsp": None, "pic24": None,
                "riscv64": None, "pic32": None, "arm64": None, "agc": None, "arc": None, "pdk16": None,
                "sparc": None, "65816": "65816"}


def cli_cpus(exe_cpus):
    return exe_cpus


# ------------------------------------------------------------------ main

def collect(run, cpus, tier):
    quick = tier == "quick"
    tails = [0, 1] if quick else [0, 1, 2, 3]
    addrs = [0] if quick else [0, 1]
    items = []
    for c in cpus:
        for t in tails:
            for a in addrs:
                for first in range(0, 65536, CHUNK):
                    items.append((c["name"], t, a, first, CHUNK, TAILS[t]))
    return items


def consume_sweep(run, r, lens_seen):
    cpu = r["cpu"]
    run.count(r["n"])
    lens_seen.setdefault(cpu, {})
    for k, v in r["hist"].items():
        lens_seen.setdefault(cpu, {})
        lens_seen[cpu][k] = lens_seen[cpu].get(k, 0) + v
        run.nt(("len", cpu, k))
    for pat, kind, args in r["bad"]:
        key = "%s/%s/%s" % (cpu, kind, "->".join(str(x) for x in args))
        inst = inst_id(r["tail_id"], r["addr_id"], pat)
        run.violation(key, {"phase": "sweep", "cpu": cpu, "tail_id": r["tail_id"], "addr_id": r["addr_id"], "pattern": pat},
                      "%s: bytes %04x+tail%d at 0x%x: %s %s" % (cpu, pat, r["tail_id"], ADDRS[r["addr_id"]], kind, args),
                      instance=inst)
    for pat, ci in r["crash"]:
        if ci["kind"] in ("inconclusive", "lost") or pat is None:
            run.inconc(ci["sig"], {"cpu": cpu, "pattern": pat})
            continue
        key = "%s/%s" % (cpu, ci["sig"])
        inst = inst_id(r["tail_id"], r["addr_id"], pat)
        run.violation(key, {"phase": "sweep", "cpu": cpu, "tail_id": r["tail_id"], "addr_id": r["addr_id"], "pattern": pat},
                      "%s: bytes %04x+tail%d: %s" % (cpu, pat, r["tail_id"], ci["sig"]), instance=inst)


def main(run):
    run.build("san")
    vd = driver.Vdrv(core.ARTS["san"]["vdrv"])
    cpus = vd.cpus()
    vd.close()
    run.require("68 CPUs with a disassembler", len([c for c in cpus if c["dis"]]) >= 68)
    quick = run.tier == "quick"
    lens_seen = {}
    # --- A
    items = collect(run, cpus, run.tier)
    for r in core.pmap(sweep_item, items, chunk=1):
        if run.handle_common(r):
            continue
        consume_sweep(run, r, lens_seen)
    # --- B
    ritems = []
    for c in cpus:
        specs = range_specs(c["name"], c["bpa"], random.Random(run.seed * 7919 + zlib.crc32(c["name"].encode())), 2 if quick else 30)
        ritems.append((c["name"], c["bpa"], specs))
    nranges = 0
    rstat = {}
    for r in core.pmap(range_item, ritems, chunk=1):
        if run.handle_common(r):
            continue
        for res in r["ranges"]:
            nranges += 1
            run.count()
            rstat[res["status"]] = rstat.get(res["status"], 0) + 1
            if res["status"] == "inconclusive":
                run.inconc("range watchdog", res["rid"])
            if res["status"] == "ok":
                run.nt(("range", res["cpu"], res["rid"].split(".")[0]))
                if len(run.samples) < 4:
                    run.sample({"cpu": res["cpu"], "range": res["rid"], "lines": res.get("lines"), "walk_steps": res.get("steps")})
            for k, desc in res["viol"]:
                seeded = res["rid"].startswith("seeded")
                wcase = {"phase": "range", "cpu": res["cpu"], "rid": res["rid"]}
                if res.get("spec"):
                    wcase["spec"] = res["spec"]
                run.violation("%s/%s" % (res["cpu"], k), wcase,
                              "%s: %s" % (res["cpu"], desc), instance=None if seeded else res["rid"])
    # --- C
    exe = core.ARTS["san"]["naken_util"]
    citems = []
    for c in cpus:
        name = c["name"]
        for fname in (["prand300", "ff64"] if quick else ["prand300", "ff64", "zero64", "odd33"]):
            citems.append((exe, name, fname, cli_data(name, fname)))
    ncli = 0
    for r in core.pmap(cli_item, citems, chunk=2):
        if run.handle_common(r):
            continue
        c = r["cli"]
        run.count()
        ncli += 1
        if c["status"] == "inconclusive":
            run.inconc("cli wall watchdog", c["cpu"])
        for k, desc in c["viol"]:
            run.violation("%s/%s" % (c["cpu"], k), {"phase": "cli", "cpu": c["cpu"], "name": c["name"]}, desc,
                          instance=c["name"])
    # --- C2: whole-image coverage through the CLI
    names = {c["name"] for c in cpus}
    cov_items = [(exe, cpu, a, n) for cpu in COVER_CPUS if cpu in names for a, n in COVER_LAYOUTS]
    ncover = 0
    for r in core.pmap(cli_cover_item, cov_items, chunk=2):
        if run.handle_common(r) or "_crash" in r:
            continue
        c = r["cover"]
        run.count()
        if c["status"] == "ran":
            ncover += 1
            run.nt(("cli-cover", c["cpu"], c["name"]))
        for k, desc in c["viol"]:
            run.violation("%s/%s" % (c["cpu"], k), {"phase": "cover", "cpu": c["cpu"], "addr": c["addr"], "n": c["n"]}, desc,
                          instance=c["name"])
    run.cov["cli_cover_runs_compared"] = ncover
    run.require("CLI whole-image coverage compared on >= 20 layouts", ncover >= 20)
    run.cov["sweep_decodes"] = sum(sum(v.values()) for v in lens_seen.values())
    run.cov["length_histogram_per_cpu"] = {c: {str(k): v for k, v in sorted(h.items())} for c, h in sorted(lens_seen.items())}
    run.cov["ranges"] = nranges
    run.cov["range_status"] = rstat
    run.cov["cli_runs"] = ncli
    run.exhaustive = True
    run.cov["exhaustive_note"] = "exhaustive over the leading 16 bits for the listed tails/addresses only"
    run.sample({"cpu": "z80", "bytes": "0000+tail0", "addr": "0x1000"})
    run.assumptions = ["maximum instruction length is over-approximated (16 bytes; unbounded for java/webasm/dotnet)",
                       "range-address parsing is skipped for tms1000/tms1100 (page/LFSR address format); they are only "
                       "checked for termination and sanitizer reports",
                       "range ends near 2^32 are not explored"]
    run.require("every CPU swept", len(lens_seen) >= 68)
    return run.finish(lambda cs: replay_keys(run, cs))


def replay_keys(run, cases):
    """Re-execute witnesses; returns per case {key: set(instances)}-like sets of keys."""
    out = []
    vd = driver.Vdrv(core.ARTS["san"]["vdrv"])
    cpus = {c["name"]: c for c in vd.cpus()}
    vd.close()
    for c in cases:
        tmp = core.Run("C08", "quick", run.seed, RULE)
        try:
            if c.get("phase") == "sweep":
                first = (c["pattern"] // 16) * 16
                core.reset_vdrv()
                r = sweep_item((c["cpu"], c["tail_id"], c["addr_id"], first, 16, TAILS[c["tail_id"]]))
                consume_sweep(tmp, r, {})
            elif c.get("phase") == "range":
                cp = cpus[c["cpu"]]
                if c.get("spec"):
                    sp = c["spec"]
                    specs = [(c["rid"], sp[0], sp[1], sp[2], bytes.fromhex(sp[3]))]
                else:
                    specs = [s for s in range_specs(cp["name"], cp["bpa"], random.Random(0), 0) if s[0] == c["rid"]]
                r = range_item((cp["name"], cp["bpa"], specs))
                for res in r["ranges"]:
                    for k, desc in res["viol"]:
                        tmp.violation("%s/%s" % (res["cpu"], k), c, desc)
            elif c.get("phase") == "cover":
                r = cli_cover_item((core.ARTS["san"]["naken_util"], c["cpu"], c["addr"], c["n"]))
                for k, desc in r["cover"]["viol"]:
                    tmp.violation("%s/%s" % (c["cpu"], k), c, desc)
            elif c.get("phase") == "cli":
                r = cli_item((core.ARTS["san"]["naken_util"], c["cpu"], c["name"], cli_data(c["cpu"], c["name"])))
                for k, desc in r["cli"]["viol"]:
                    tmp.violation("%s/%s" % (c["cpu"], k), c, desc)
        except Exception:
            pass
        out.append(set(tmp.viol.keys()))
    return out


def replay_cli(doc, seed):
    run = core.Run("C08", "quick", seed, RULE)
    run.build("san")
    keys = replay_keys(run, [doc.get("case", doc)])[0]
    if keys:
        print("VIOLATION property=C08 replay=- keys=%s" % sorted(keys))
        return 1
    print("replay: no violation")
    return 0
