"""C17 - naken_util never crashes, hangs or corrupts memory on any file or command.

Monitor: the real ASan+UBSan naken_util CLI binary, one (file, option set, scripted session) per process
under CPU / file-size / RSS limits.  Object files are the ones the sanitized naken_asm writes (hex, srec,
elf, bin, wdc, uf2, amiga, macho) plus a hand-written TI-TXT file, and field-aware mutations of them.
Events: termination by signal, sanitizer report, RSS cap, CPU limit (3 s) where neither the loaded image
nor a command asks for a range above 64 KiB, exit status outside {0,1}, load failure without a diagnostic.
"""
import os
import random
import re
import shutil
import signal
import struct
import tempfile

from .. import build as vbuild
from .. import core, proc
from ..gen import c16_mutate as G

PID = "C17"
RULE = ("object files written by the sanitized naken_asm for 6 small programs (msp430, 68000, avr8, mips, z80, propeller) in each of "
        "hex, srec, elf, wdc, uf2, amiga, macho, bin plus a TI-TXT file; mutations: every 1/2/4-byte field position of binary files "
        "set to 0, 1, 0x7f, 0x80, 0xff.., 2^31, 2^32-1 and file-size-relative values in both byte orders (enumerated in the thorough "
        "tier, sampled in quick), truncation at every/sampled length, record-field edits of text formats (count, address, type, "
        "checksum, non-hex digits, with and without repaired checksum), line deletion/duplication, random byte edits; crossed with "
        "cpu flags (all 52 + none), -disasm, -disasm_range a-b, -address/-set_pc/-break_io/-bin, odd command lines, and scripted "
        "interactive sessions (1..12 random well-formed/malformed commands out of 27, always ended by an empty command and quit; run "
        "and call are excluded because a simulated program may legitimately never stop).  distinct_nontrivial = distinct (format, "
        "mutation class, command class, cpu) whose child started loading or executing commands.")

CPU_S = 3
ASAN = proc.ASAN_ENV.replace("hard_rss_limit_mb=3000", "hard_rss_limit_mb=1500")
UTIL_CPUS = ("1802 4004 6502 65816 6800 6809 68hc08 68000 8008 8048 8051 86000 arc arm arm64 avr8 cell copper cp1610 dotnet dspic "
             "epiphany f100_l f8 java lc3 m8c mips32 mips msp430 pdp8 pdp11 pic14 pic18 powerpc propeller propeller2 ps2_ee ps2_ee_vu0 "
             "ps2_ee_vu1 riscv sh4 stm8 super_fx sweet16 tms340 tms1000 tms1100 tms9900 unsp webasm xtensa z80").split()
SPAN_LIMIT = 1 << 16
DIAG_RE = re.compile(r"(?i)error|cannot|can't|couldn't|unknown|usage|illegal|invalid|fail|not |no ")

PROGS = {
    "msp430": ".msp430\n.org 0xffc0\nstart:\n  mov.w #0x280, SP\n  mov.w #5, r5\nloop:\n  add.w r5, r6\n  dec r5\n  jnz loop\n  jmp start\n.org 0xfffe\n.dw start\n",
    "68000": ".68000\n.org 0x1000\nstart:\n  move.w #5, d0\n  add.l d0, d1\n  nop\n  bra.s start\n.dc32 0x12345678\n",
    "avr8": ".avr8\n.org 0x10\nstart:\n  ldi r16, 5\n  add r17, r16\n  rjmp start\n",
    "mips": ".mips\n.org 0x100\nstart:\n  li $t0, 5\n  addu $t1, $t1, $t0\n  b start\n  nop\n.export start\n.entry_point start\n",
    "z80": ".z80\n.org 0x10\nstart:\n  ld a, 5\n  add a, b\n  jp start\n.org 0x60\n.db 1,2,3\n",
    "propeller": ".propeller\n.org 4\nstart:\n  mov 5, #1\n  add 5, 6\n  jmp #start\n",
}
TYPES = ["hex", "srec", "elf", "wdc", "uf2", "amiga", "macho", "bin"]
TI_TXT = "@ffc0\n31 40 80 02 35 40 05 00 06 55 15 83 fd 23 f9 3f\n@fffe\n00 f8\nq\n"


def tmpdir():
    base = os.path.join(vbuild.VERIF, ".work", "tmp")
    os.makedirs(base, exist_ok=True)
    return tempfile.mkdtemp(prefix="c17_", dir=base)


def env():
    return proc.base_env({"ASAN_OPTIONS": ASAN})


# ------------------------------------------------------------------ seeds

def make_seeds(exe_asm):
    """{(prog, type): file content (latin-1 str)} written by the real naken_asm."""
    seeds = {}
    d = tmpdir()
    try:
        for pn, src in PROGS.items():
            core.write_tmp(d, pn + ".asm", src)
            for t in TYPES:
                out = "%s.%s" % (pn, t)
                o = proc.run([exe_asm, "-type", t, "-o", out, pn + ".asm"], cwd=d, cpu_s=10, fsize_mb=16, env=env())
                p = os.path.join(d, out)
                if o.status == 0 and os.path.exists(p) and not o.san:
                    data = open(p, "rb").read()
                    if 0 < len(data) <= 6000:
                        seeds[(pn, t)] = data.decode("latin-1")
        seeds[("msp430", "txt")] = TI_TXT
    finally:
        shutil.rmtree(d, ignore_errors=True)
    return seeds


# ------------------------------------------------------------------ file mutation

BVALS = [0, 1, 2, 0x7f, 0x80, 0xff, 0x100, 0x7fff, 0x8000, 0xffff, 0x10000, 0x7fffffff, 0x80000000, 0xfffffffe, 0xffffffff]


def field_descs(n):
    """Every (offset, width, value, byte order) of a binary file of n bytes - small tuples only; the mutated bytes are
    built inside the worker (apply_field), never in the parent."""
    rel = [n - 1, n, n + 1, max(0, n - 4), n // 2]
    for off in range(n):
        for w in (1, 2, 4):
            if off % w or off + w > n:
                continue
            for v in BVALS + rel:
                if v >= (1 << (8 * w)):
                    continue
                for bo in ("<", ">") if w > 1 else ("<",):
                    yield (off, w, v, bo)


def sample_fields(rng, n, k):
    per = 70
    if n * per <= 2 * k:
        return list(field_descs(n))[:max(k, 0) * 3]
    out = set()
    vals = BVALS + [n - 1, n, n + 1, max(0, n - 4), n // 2]
    tries = 0
    while len(out) < k and tries < 20 * k:
        tries += 1
        w = rng.choice((1, 2, 4))
        off = rng.randrange(n)
        off -= off % w
        v = rng.choice(vals)
        if off + w > n or v >= (1 << (8 * w)):
            continue
        out.add((off, w, v, rng.choice("<>") if w > 1 else "<"))
    return sorted(out)


def apply_field(data, off, w, v, bo):
    b = struct.pack(bo + {1: "B", 2: "H", 4: "I"}[w], v).decode("latin-1")
    return data[:off] + b + data[off + w:]


SEEDS = {}


def build_data(c):
    """File content of a case: stored inline (witnesses, text formats) or rebuilt from the seed file and a small descriptor."""
    if c.get("data") is not None or not c.get("fname"):
        return c.get("data")
    base = SEEDS[(c["prog"], c["fmt"])]
    m = c["mut"]
    if m[0] == "valid":
        return base
    if m[0] == "field":
        return apply_field(base, m[1], m[2], m[3], m[4])
    if m[0] == "trunc":
        return base[:m[1]]
    r = random.Random(m[1])
    if m[0] == "bytes":
        b = bytearray(base.encode("latin-1"))
        for _k in range(r.choice([1, 2, 4, 16])):
            b[r.randrange(len(b))] = r.randrange(256)
        return b.decode("latin-1")
    if m[0] == "garbage":
        g = bytes(r.getrandbits(8) for _ in range(r.choice([1, 4, 16, 64, 600]))).decode("latin-1")
        return base[:r.choice([0, 4, 8, 16, 52])] + g
    raise ValueError(m)


def text_mutations(fmt, text):
    """Record-aware edits of hex / srec / ti-txt files -> (label, new text)."""
    lines = text.split("\n")
    hexvals = ["00", "01", "02", "03", "04", "05", "10", "7f", "80", "fe", "ff", "zz", "0", "", "-1", "FFFF"]
    for li, ln in enumerate(lines):
        if not ln.strip():
            continue
        fields = []
        if fmt == "hex" and ln.startswith(":"):
            fields = [("count", 1, 3), ("addr", 3, 7), ("type", 7, 9), ("data0", 9, 11), ("cksum", len(ln.rstrip()) - 2, len(ln.rstrip())), ("colon", 0, 1)]
        elif fmt == "srec" and ln.startswith("S"):
            fields = [("type", 1, 2), ("count", 2, 4), ("addr", 4, 8), ("data0", 8, 10), ("cksum", len(ln.rstrip()) - 2, len(ln.rstrip())), ("S", 0, 1)]
        elif fmt == "txt":
            fields = [("tok0", 0, 2), ("at", 0, 1), ("addr", 1, 5), ("tok1", 3, 5)]
        for name, a, b in fields:
            for v in hexvals:
                if name in ("type", "colon", "S", "at"):
                    if v not in ("00", "01", "05", "zz", "", "ff"):
                        continue
                    v2 = {"00": "0", "01": "1", "05": "5", "zz": "z", "": "", "ff": "9"}[v] if b - a == 1 else v
                else:
                    v2 = v if b - a == 2 else (v * 2 if v else "")
                new = ln[:a] + v2 + ln[b:]
                yield ("rec/" + name, li, "\n".join(lines[:li] + [new] + lines[li + 1:]))
                fixed = fix_checksum(fmt, new)
                if fixed and fixed != new:
                    yield ("rec/" + name + "+ck", li, "\n".join(lines[:li] + [fixed] + lines[li + 1:]))
        yield ("line/del", li, "\n".join(lines[:li] + lines[li + 1:]))
        yield ("line/dup", li, "\n".join(lines[:li] + [ln] * 3 + lines[li + 1:]))
        yield ("line/long", li, "\n".join(lines[:li] + [ln.rstrip() + "00" * 600] + lines[li + 1:]))
        yield ("line/nonl", li, "\n".join(lines[:li] + [ln]))
    yield ("line/empty", 0, "")
    yield ("line/only-colon", 0, ":")
    yield ("line/only-S", 0, "S")
    yield ("line/S1-nocount", 0, "S1")
    yield ("line/high-address-hex", 0, ":02000004FFFFFC\n:02FFF000AABB" + "%02X" % ((-(2 + 0xff + 0xf0 + 0xaa + 0xbb)) & 0xff) + "\n:00000001FF\n")
    yield ("line/high-address-srec", 0, "S309FFFFFFF0AABBCCDD" + "%02X" % (~(9 + 0xff * 3 + 0xf0 + 0xaa + 0xbb + 0xcc + 0xdd) & 0xff) + "\nS9030000FC\n")
    yield ("line/high-address-txt", 0, "@ffff0\naa bb\n@fffffff0\n01 02\nq\n")


def fix_checksum(fmt, ln):
    try:
        if fmt == "hex" and ln.startswith(":"):
            body = bytes.fromhex(ln[1:].strip()[:-2])
            return ":" + body.hex().upper() + "%02X" % ((-sum(body)) & 0xff)
        if fmt == "srec" and ln.startswith("S"):
            body = bytes.fromhex(ln[2:].strip()[:-2])
            return ln[:2] + body.hex().upper() + "%02X" % ((~sum(body)) & 0xff)
    except ValueError:
        return None
    return None


# ------------------------------------------------------------------ sessions

ADDR_OK = ["0", "1", "0x10", "0x100", "0x1000", "0xf800", "0xfffe", "0xffff", "0x10000", "0x2000", "4", "start", "loop"]
ADDR_ODD = ["zz", "-1", "0x", "0xffff0000", "0xfffffffe", "0xffffffff", "0x100000000", "99999999999999999999", "1e5", "$10", "10h", " ", "=",
            "r5", "0x1000-", "-0x1000", "0x1000-0x10", "5-2", "a-b", "0x1000 - 0x1010", "0x1000,0x1010", "'a'", "\"s\"", "%d%s%n", "\t", "0b11"]
REGS = ["r0", "r1", "r5", "r15", "pc", "sp", "PC", "SP", "sr", "a", "x", "y", "d0", "a7", "$t0", "$1", "t0", "zz", "", "r16", "r99", "r-1", "f0", "c", "z", "n", "v"]
VALS = ["0", "1", "5", "0xff", "0x1000", "0xffff", "0x10000", "0xffffffff", "-1", "zz", "", "0x100000000", "99999999999999999999", "=", "1 2"]


def gen_range(rng, bulk):
    a = rng.choice(ADDR_OK[:11])
    if bulk:
        return rng.choice(["0-0xffffffff", "0x1000-0x7fffffff", "0xffff0000-0xffffffff", "0-0x2000000", a + "-0xffffffff"])
    base = int(a, 0)
    return "0x%x-0x%x" % (base, base + rng.choice([0, 1, 2, 15, 16, 31, 255, 256, 1000, 4095]))


def gen_command(rng, bulk=False):
    c = rng.choice(["print", "print16", "print32", "write", "write16", "write32", "disasm", "set", "clear", "break", "push", "speed", "step",
                    "info", "registers", "reg", "symbols", "display", "no_clear", "reset", "stop", "help", "?", "dump_ram", "dumpram", "asm",
                    "junk", "empty", "repeat", "long"])
    r = rng.random()
    if c in ("print", "print16", "print32", "disasm", "dump_ram", "dumpram"):
        if r < 0.45:
            return "%s %s" % (c, gen_range(rng, bulk))
        if r < 0.7:
            return "%s %s" % (c, rng.choice(ADDR_OK))
        if r < 0.75:
            return c
        return "%s %s" % (c, rng.choice(ADDR_ODD))
    if c in ("write", "write16", "write32"):
        a = rng.choice(ADDR_OK) if r < 0.6 else rng.choice(ADDR_ODD)
        vals = " ".join(rng.choice(VALS) for _ in range(rng.choice([0, 1, 1, 2, 3, 8, 40])))
        return ("%s %s %s" % (c, a, vals)).rstrip() if r < 0.95 else c
    if c == "set":
        return rng.choice(["set %s=%s" % (rng.choice(REGS), rng.choice(VALS)), "set %s" % rng.choice(REGS), "set", "set =", "set %s = %s" % (rng.choice(REGS), rng.choice(VALS)),
                           "set %s=%s=%s" % (rng.choice(REGS), rng.choice(VALS), rng.choice(VALS))])
    if c == "clear":
        return rng.choice(["clear " + rng.choice(REGS), "clear", "clear " + rng.choice(VALS)])
    if c == "break":
        return rng.choice(["break " + rng.choice(ADDR_OK), "break " + rng.choice(ADDR_ODD), "break", "break " + rng.choice(ADDR_OK) + " " + rng.choice(VALS)])
    if c == "push":
        return rng.choice(["push " + rng.choice(VALS), "push"])
    if c == "speed":
        return "speed " + rng.choice(["0", "1", "1000", "1000000", "-1", "zz", "", "99999999999999999999", "0x10"])
    if c == "asm":
        body = rng.choice(["nop", "mov.w #1, r5", "add r1, r2", "junk junk", ".db 1,2,3", "X" * 600, ".org 0x100", "", "quit"])
        return "asm %s\n%s\n " % (rng.choice(ADDR_OK + ["", "zz"]), body)
    if c == "junk":
        return rng.choice(["junk", "quitx", "printf", "print8 0", "!", "#", ";", "-disasm", "PRINT 0", "\x01\x02", "\xff\xfe", "a" * 70, "help me", "step 5", "stop now"])
    if c == "empty":
        return " "
    if c == "repeat":
        return ""
    if c == "long":
        return rng.choice(["print ", "write 0x1000 ", "set ", "disasm ", "", "junk"]) + rng.choice(["1 ", "A", "0x10 ", "9", "-"]) * rng.choice([100, 513, 1100, 5000])
    return c


def enum_commands(quick):
    """Deterministic single commands (ranges stay <= 4 KiB)."""
    rngs = ["", "0x1000", "0x100-0x1ff", "0xffc0-0xffff", "zz", "-1", "0x1000-", "5-2", "0xffffffff", "0xfffffff0-0xffffffff", "0x10000-0x100ff", "a-b",
            "0x1000-0x10", "99999999999999999999", "0x", "start"]
    addrs = ["0x1000", "0", "zz", "-1", "0xffff", "0x10000", "0xfffffffe", "0xffffffff", "", "start", "99999999999999999999"]
    regs = ["r0", "r5", "r15", "r16", "r31", "r32", "r99", "pc", "sp", "sr", "a", "b", "x", "hl", "d0", "d7", "d8", "a7", "$t0", "$31", "$32", "zz", "", "c", "z",
            "r-1", "cogid", "f0"]
    if quick:
        rngs, addrs, regs = rngs[:10], addrs[:8], regs[::2]
    out = []
    for c in ("print", "print16", "print32", "disasm", "dump_ram", "dumpram"):
        out += ["%s %s" % (c, r) for r in rngs]
    for c in ("write", "write16", "write32"):
        out += ["%s %s 1 2 3" % (c, a_) for a_ in addrs] + ["%s 0x1000" % c, "%s 0x1000 zz" % c, "%s 0x1000 %s" % (c, "1 " * 300)]
    for r in regs:
        out += ["set %s=1" % r, "set %s=0xffffffff" % r, "clear %s" % r]
    out += ["set", "set =", "set r5", "set r5=", "set =5", "clear", "clear 1", "clear -1", "clear 99"]
    out += ["break %s" % a_ for a_ in addrs] + ["push %s" % v for v in ("1", "0xffffffff", "zz", "-1")] * 1
    out += ["push 1\npush 2\npush 3\npush 4", "speed 0", "speed 1", "speed -1", "speed zz", "speed 99999999999999999999", "step", "step\nstep\nstep", "reset\nstep",
            "info", "registers", "reg", "symbols", "display\nstep", "no_clear\ndisplay\nstep", "stop", "help", "?", "asm\nnop\n ", "asm 0x1000\nnop\n ", "asm zz\nnop\n ",
            "asm 0x1000\n" + "X" * 600 + "\n ", "asm 0x1000\njunk junk\n ", "asm 0x1000\n.db 1,2,3\n ", "junk", "print8 0", "a" * 5000, "print " + "1" * 5000]
    return out


def gen_session(rng, bulk=False):
    n = rng.choice([1, 2, 3, 5, 8, 12])
    cmds = [gen_command(rng, bulk) for _ in range(n)]
    return "\n".join(cmds) + "\n \nquit\n"


# ------------------------------------------------------------------ running / judging

def run_case(item):
    exe, case = item
    d = tmpdir()
    try:
        fname = case.get("fname")
        data = build_data(case)
        if fname and data is not None:
            with open(os.path.join(d, fname), "wb") as f:
                f.write(data.encode("latin-1", "replace"))
        for name, content in (case.get("files") or {}).items():
            with open(os.path.join(d, name), "wb") as f:
                f.write(content.encode("latin-1", "replace"))
        stdin = case.get("stdin")
        o = proc.run([exe] + case["args"], cwd=d, cpu_s=CPU_S, fsize_mb=64, stdin_data=stdin if stdin is not None else "quit\n",
                     env=env(), max_out=1 << 18)
        case = dict(case, _n=len(data or ""))
        loaded = "Loaded " in o.stdout
        started = loaded or "Type help" in o.stdout or "rror" in o.stdout or "Unknown" in o.stdout
        status = o.status
        ev = judge(o, case)
        del o.stdout, o.stderr
        if ev and ev[0][0] == "slow":
            # confirm before calling it a hang: the same case once more with about twice the CPU budget; a run that then terminates
            # was slow (loaded machine, cold caches), not non-terminating
            o2 = proc.run([exe] + case["args"], cwd=d, cpu_s=2 * CPU_S + 1, fsize_mb=64,
                          stdin_data=stdin if stdin is not None else "quit\n", env=env(), max_out=1 << 16)
            if o2.timed_out or o2.signal == signal.SIGXCPU:
                ev = classify_hang(exe, d, case)
            else:
                ev2 = judge(o2, case)
                del o2.stdout, o2.stderr
                ev = ev2 if ev2 and ev2[0][0] == "viol" else [("withheld", "slow_not_hang", "terminated within about twice the CPU budget")]
        case.pop("_n", None)
        return {"case": case, "ev": ev, "loaded": loaded, "status": status, "started": started}
    finally:
        shutil.rmtree(d, ignore_errors=True)


def judge(o, case):
    fmt = case.get("fmt") or "none"
    if o.wall_killed:
        return [("inconclusive", "wall", "wall-clock watchdog")]
    if o.san:
        k = o.san["kind"]
        if k in ("asan:rss-limit", "asan:oom"):
            return [("viol", "memory/%s" % case["ccls"], "RSS cap (1.5 GB) exceeded: %s [file %d bytes]" % (k, case.get("_n", 0)))]
        first = o.stderr[o.stderr.find("ERROR"):][:300].replace("\n", " | ") if "ERROR" in o.stderr else o.stderr[:300].replace("\n", " | ")
        return [("viol", "san/" + G.san_sig(o.san, o.stderr), "sanitizer report: %s" % first)]
    if o.timed_out or o.signal == signal.SIGXCPU:
        return [("slow", "cpu", "CPU limit")]
    if o.signal == signal.SIGXFSZ:
        return [("withheld", "fsize", "file-size limit")]
    if o.signal:
        return [("viol", "signal/%d/%s/%s" % (o.signal, fmt, case["ccls"]), "killed by signal %d; stderr: %s" % (o.signal, o.stderr[-200:]))]
    if o.status not in (0, 1):
        return [("viol", "exit-status/%s/%s" % (o.status, case["ccls"]), "exit status %s; output: %s" % (o.status, (o.stdout + o.stderr)[-200:]))]
    if o.status == 1:
        body = (o.stdout + o.stderr).split("Version:")[-1]
        if not DIAG_RE.search(body):
            return [("viol", "silent-failure/%s" % case["ccls"], "exit 1 without a diagnostic; output tail: %r" % body[-200:])]
    return []


def classify_hang(exe, d, case):
    """The case burnt its CPU budget.  Decide whether that can be legitimate: load the same file with the same
    options but without -disasm and with an empty session; the hang verdict is taken when the loader itself does
    not return, or when the image spans <= 64 KiB and no command asks for more."""
    fmt = case.get("fmt") or "none"
    cpu = case.get("cpu") or "none"
    if case.get("bulk"):
        return [("withheld", "cpu_bulk", "bulk-tagged command")]
    args = [a for a in case["args"]]
    probe = []
    i = 0
    while i < len(args):
        if args[i] in ("-disasm", "-run"):
            i += 1
            continue
        if args[i] == "-disasm_range":
            i += 2
            continue
        probe.append(args[i])
        i += 1
    o = proc.run([exe] + probe, cwd=d, cpu_s=CPU_S, fsize_mb=64, stdin_data=" \nquit\n", env=env(), max_out=1 << 16)
    if o.timed_out or o.signal == signal.SIGXCPU:
        return [("viol", "hang/load/%s" % fmt, "loading a %d-byte %s file does not terminate within %d CPU-s" % (case.get("_n", 0), fmt, CPU_S))]
    m = re.search(r"from 0x([0-9a-f]+) to 0x([0-9a-f]+)", o.stdout)
    if m:
        lo, hi = int(m.group(1), 16), int(m.group(2), 16)
        if hi >= lo and hi - lo > SPAN_LIMIT:
            return [("withheld", "cpu_span", "image spans more than 64 KiB")]
    if m and max(lo, hi) >= 0xffff0000:
        cpu = "high-address"
    # a command range ending in the last 64 KiB of the 32-bit space: the per-cpu range loops use 32-bit counters
    # that wrap (DESIGN.md section 5) - one finding class, whatever the cpu
    for tok in re.findall(r"0x[0-9a-fA-F]+", (case.get("stdin") or "") + " " + " ".join(case.get("args") or [])):
        try:
            if int(tok, 16) >= 0xffff0000:
                cpu = "high-address"
        except ValueError:
            pass
    # keyed by cpu only: command hangs come from the cpu's decoder/range loop, whatever command class reached it
    return [("viol", "hang/cmd/%s" % cpu, "no termination within %d CPU-s although the image and every requested range span <= 64 KiB" % CPU_S)]


# ------------------------------------------------------------------ generation

def fname_for(t, pn="f"):
    return "%s.%s" % (pn, {"macho": "macho", "amiga": "amiga"}.get(t, t))


def cmdline(rng, fname, t, cpu, kind, bulk=False):
    """-> (args, stdin, command class)"""
    a = []
    if cpu:
        a.append("-" + cpu)
    if t == "bin":
        a += ["-bin"]
        if rng.random() < 0.7:
            a += ["-address", rng.choice(["0", "0x1000", "0xf800", "0xffff", "0xffff0000", "0xfffffff0", "-1", "zz", "0x7fffffff"])]
    if kind == "disasm":
        return a + ["-disasm", fname], None, "disasm"
    if kind == "disasm_range":
        r = gen_range(rng, bulk) if rng.random() < 0.7 else rng.choice(ADDR_ODD + ADDR_OK)
        return a + ["-disasm_range", r, fname], None, "disasm_range"
    if kind == "opts":
        a += rng.choice([["-set_pc", rng.choice(ADDR_OK[:9] + ["zz", "-1", "0xffffffff"])], ["-break_io", rng.choice(ADDR_OK[:9] + ["zz", "-1"])],
                         ["-address", rng.choice(["0", "0x100", "-1", "zz"])], ["-bin"], ["-bin", "-address", "0xfffffff0"]])
        return a + [fname], gen_session(rng, bulk), "opts-session"
    return a + [fname], gen_session(rng, bulk), "session"


def gen_cases(run, seeds):
    quick = run.tier == "quick"
    rng = run.rng
    cases = []
    keys = sorted(seeds)

    def add(fmt, pn, mut, mcls, kind, cpu, region=0, bulk=False, data=None):
        """mut = small descriptor (the worker rebuilds the bytes); data only for the tiny text formats"""
        fname = fname_for(fmt, pn)
        args, stdin, ccls = cmdline(rng, fname, fmt, cpu, kind, bulk)
        cases.append({"id": "%s/%s/%s" % (fmt, mcls, ccls), "fmt": fmt, "prog": pn, "mcls": mcls, "ccls": ccls, "cpu": cpu, "fname": fname,
                      "mut": mut, "data": data, "args": args, "stdin": stdin, "bulk": bulk, "region": region})

    def pick_cpu(pn, p_native=0.5):
        r = rng.random()
        if quick:
            # the quick tier keeps to the program's own cpu (or none): which foreign decoder stalls on which garbage is
            # seed-dependent and is explored (and catalogued) by the thorough tier and the enumerated all-cpu sweep
            return pn if r < 0.8 else None
        if r < p_native:
            return pn
        if r < p_native + 0.1:
            return None
        return rng.choice(UTIL_CPUS)

    kinds = ["disasm", "session", "disasm", "session", "disasm_range", "opts"]
    # unmutated files: every cpu flag x disasm, plus sessions
    for (pn, t) in keys:
        for cpu in ([pn, None] + (UTIL_CPUS if (not quick or (pn, t) in (("msp430", "hex"), ("mips", "elf"))) else [])):
            add(t, pn, ("valid",), "valid", "disasm", cpu)
        for i in range(1 if quick else 8):
            add(t, pn, ("valid",), "valid", rng.choice(["session", "opts", "disasm_range"]), pick_cpu(pn, 0.7))
        add(t, pn, ("valid",), "valid", "session", pn, bulk=True)
    # sessions without a file, per cpu
    for cpu in UTIL_CPUS + [None]:
        for i in range(1 if quick else 6):
            a = (["-" + cpu] if cpu else [])
            cases.append({"id": "nofile/session", "fmt": "none", "prog": None, "mcls": "nofile", "ccls": "session", "cpu": cpu, "fname": None, "data": None,
                          "args": a, "stdin": gen_session(rng), "bulk": False, "region": 0})
    # enumerated one-command sessions: every command family x argument shapes x the six seed cpus and the default cpu
    for pn in sorted(PROGS) + [None]:
        for cmd in enum_commands(quick):
            fmt = "hex" if pn else "none"
            a = (["-" + pn] if pn else []) + ([fname_for("hex", pn)] if pn else [])
            cases.append({"id": "enum-cmd/%s" % cmd.split(" ")[0], "fmt": fmt, "prog": pn, "mcls": "valid" if pn else "nofile", "ccls": "enum-session", "cpu": pn,
                          "fname": fname_for("hex", pn) if pn else None, "mut": ("valid",), "data": None, "args": a, "stdin": cmd + "\n \nquit\n",
                          "bulk": False, "region": 0})
    # mutated files
    for (pn, t) in keys:
        n = len(seeds[(pn, t)])
        if t in ("hex", "srec", "txt"):
            muts = list(text_mutations(t, seeds[(pn, t)]))      # files of < 100 bytes: a few hundred short strings
            if quick:
                # the whole-file specials and the count-field edits of the first record are always kept (deterministic part)
                keep = [m for m in muts if pn == "msp430" and (m[0].startswith("line/") and m[0] not in ("line/del", "line/dup", "line/long", "line/nonl")
                                                                or (m[0].startswith("rec/count") and m[1] == 0))]
                muts = keep + rng.sample(muts, min(len(muts), 30 if pn == "msp430" else 6))
            elif pn != "msp430" and len(muts) > 250:
                muts = rng.sample(muts, 250)
            for label, li, new in muts:
                add(t, pn, None, label, rng.choice(kinds), pick_cpu(pn), region=li // 4, data=new)
        else:
            if quick:
                k = 40 if pn in ("msp430", "mips") else 8
            elif pn in ("msp430", "mips") and t != "bin":
                k = 1000
            else:
                k = 200
            for off, w, v, bo in sample_fields(rng, n, k):
                add(t, pn, ("field", off, w, v, bo), "field/w%d" % w, rng.choice(kinds), pick_cpu(pn), region=off // 64)
        # truncation
        cuts = range(0, n) if (not quick and n <= 400) else sorted(set(rng.randrange(n) for _ in range(4 if quick else 100)))
        for cut in cuts:
            add(t, pn, ("trunc", cut), "truncate", rng.choice(["disasm", "session"]), pick_cpu(pn), region=cut // 64)
        # random byte edits / garbage with the right extension
        for i in range(3 if quick else 60):
            add(t, pn, ("bytes", rng.getrandbits(40)), "bytes", rng.choice(kinds), pick_cpu(pn), region=99)
        for i in range(1 if quick else 10):
            add(t, pn, ("garbage", rng.getrandbits(40)), "garbage", rng.choice(kinds), pick_cpu(pn), region=98)
    # odd command lines
    hexd = seeds.get(("msp430", "hex"), ":00000001FF\n")
    odd = {"none": [], "h": ["-h"], "disasm-nofile": ["-disasm"], "run-nofile": ["-run"], "disasm_range-noarg-file-first": ["f.hex", "-disasm_range", "0-1"],
           "disasm_range-noarg": ["f.hex", "-disasm_range"], "address-noarg": ["f.hex", "-address"], "set_pc-noarg": ["f.hex", "-set_pc"], "break_io-noarg": ["f.hex", "-break_io"],
           "sim_serial-noarg": ["f.hex", "-sim_serial"], "sim_serial-1arg": ["-sim_serial", "1", "f.hex"], "unknown-opt": ["-zzz", "f.hex"],
           "missing-file": ["nope.hex"], "dir-file": ["."], "two-files": ["f.hex", "f.hex"], "empty-arg": [""], "dash": ["-"], "noext": ["noext"],
           "unknown-ext": ["f.xyz"], "long-name": ["n" * 300 + ".hex"], "long-opt": ["-" + "z" * 5000, "f.hex"], "bin-hexfile": ["-bin", "f.hex"],
           "cpu-twice": ["-msp430", "-z80", "f.hex"], "disasm-twice": ["-disasm", "-disasm", "f.hex"], "disasm_range-last": ["f.hex", "-msp430", "-disasm_range", "0xf800-0xf810"],
           "elf-as-hex": ["e.hex"], "hex-as-elf": ["h.elf"], "empty-file-hex": ["z.hex"], "empty-file-elf": ["z.elf"], "empty-file-bin": ["-bin", "z.bin"],
           "empty-noext": ["z"], "set_pc-high": ["-set_pc", "0xffffffff", "f.hex"], "break_io-high": ["-break_io", "0xffffffff", "f.hex"]}
    fx = {"f.hex": hexd, "noext": hexd, "f.xyz": hexd, "e.hex": seeds.get(("msp430", "elf"), ""), "h.elf": hexd, "z.hex": "", "z.elf": "", "z.bin": "", "z": ""}
    for name, a in odd.items():
        cases.append({"id": "cli/" + name, "fmt": "none", "prog": None, "mcls": "cli", "ccls": "cli", "cpu": None, "fname": None, "data": None, "files": fx,
                      "args": a, "stdin": " \nquit\n", "bulk": False, "region": 0})
    return cases


THOROUGH = [False]


def hang_class(c):
    """a-priori class used to stop re-running inputs that burn the whole CPU budget"""
    if c["mcls"] == "valid":
        return (c["fmt"], "valid", c.get("cpu") or "none", c["ccls"])
    if THOROUGH[0]:
        return (c["fmt"], c["mcls"].split("/")[0], c["ccls"], c.get("region", 0) // 4)
    return (c["fmt"], c["mcls"].split("/")[0], c["ccls"])


# ------------------------------------------------------------------ main

def slim(c):
    """self-contained witness: the (small) file content is materialised here, for violating cases only"""
    w = {k: v for k, v in c.items() if k in ("id", "fmt", "prog", "mcls", "ccls", "cpu", "fname", "data", "files", "args", "stdin", "bulk", "region")}
    w["data"] = build_data(c)
    return w


def consume(run, r, hangs):
    c = r["case"]
    run.count()
    run.cov["cases_fmt_" + c["fmt"]] = run.cov.get("cases_fmt_" + c["fmt"], 0) + 1
    run.cov["cases_cmd_" + c["ccls"]] = run.cov.get("cases_cmd_" + c["ccls"], 0) + 1
    if r["started"]:
        run.nt((c["fmt"], c["mcls"], c["ccls"], c.get("cpu")))
        run.cov["started"] = run.cov.get("started", 0) + 1
    if r["loaded"]:
        run.cov["loaded"] = run.cov.get("loaded", 0) + 1
        if c["mcls"] != "valid":
            run.cov["mutated_file_loaded"] = run.cov.get("mutated_file_loaded", 0) + 1
    elif c.get("fname") and r["status"] == 1:
        run.cov["rejected"] = run.cov.get("rejected", 0) + 1
    if not r["ev"] and len(run.samples) < 6 and c["mcls"] not in ("valid", "cli", "nofile"):
        run.sample({"fmt": c["fmt"], "mutation": c["mcls"], "args": c["args"], "stdin": c["stdin"], "status": r["status"], "loaded": r["loaded"]})
    for ev, key, desc in r["ev"]:
        if ev == "viol":
            run.cov["events_" + key.split("/")[0]] = run.cov.get("events_" + key.split("/")[0], 0) + 1
            if key.startswith("hang/"):
                hc = hang_class(c)
                hangs[hc] = hangs.get(hc, 0) + 1
            run.violation(key, slim(c), "%s [%s cpu=%s args=%s]" % (desc, c["id"], c.get("cpu"), " ".join(c["args"])[:120]))
        elif ev == "withheld":
            run.cov["withheld_" + key] = run.cov.get("withheld_" + key, 0) + 1
            hc = hang_class(c)
            hangs[hc] = hangs.get(hc, 0) + 1
        elif ev == "inconclusive":
            run.inconc(desc, {"id": c["id"]})


def main(run):
    run.build("san")
    exe = core.ARTS["san"]["naken_util"]
    seeds = make_seeds(core.ARTS["san"]["naken_asm"])
    SEEDS.clear()
    SEEDS.update(seeds)
    run.cov["seed_files"] = len(seeds)
    run.cov["seed_file_bytes_max"] = max(len(v) for v in seeds.values())
    run.cov["seed_formats"] = sorted(set(t for _, t in seeds))
    cases = gen_cases(run, seeds)
    random.Random(run.seed).shuffle(cases)
    hangs = {}
    THOROUGH[0] = run.tier != "quick"
    nround = 10 if run.tier == "quick" else 40
    size = (len(cases) + nround - 1) // nround
    for i in range(0, len(cases), size):
        batch = []
        for c in cases[i:i + size]:
            if hangs.get(hang_class(c), 0) >= 3:
                run.cov["hang_repeats_skipped"] = run.cov.get("hang_repeats_skipped", 0) + 1
                continue
            batch.append((exe, c))
        for r in core.pmap(run_case, batch):
            if run.handle_common(r):
                continue
            consume(run, r, hangs)
    run.assumptions = [
        "scripted sessions always end with an empty command and 'quit' (at EOF naken_util repeats the previous command forever; C17 only requires "
        "termination 'when told to')",
        "'run', 'call' and '-run' are not issued: a simulated program may legitimately never stop",
        "the hang verdict (3 CPU-s) is withheld when a command names a range above 64 KiB or the loaded image spans more than 64 KiB; a case over "
        "budget is re-run without -disasm and with an empty session to tell loader hangs from command hangs",
        "after 3 over-budget cases of one (format, mutation class, command class[, 256-byte file region in the thorough tier]) further cases of that class are skipped and counted",
        "hang keys are per format (loader) or per cpu and command class; sanitizer keys are kind/function/file (line numbers stripped)",
        ".o/.a import parsers are only reachable through naken_asm and are exercised by C16's odd command lines",
    ]
    run.require(">= 300 files loaded", run.cov.get("loaded", 0) >= 300)
    run.require(">= 100 mutated files loaded and >= 100 rejected", run.cov.get("mutated_file_loaded", 0) >= 100 and run.cov.get("rejected", 0) >= 100)
    run.require("all 9 formats seeded", len(run.cov["seed_formats"]) >= 9)
    return run.finish(lambda cs: replay_keys(run, cs))


def replay_keys(run, cases):
    exe = core.ARTS["san"]["naken_util"]
    out = {}
    for r in core.pmap(run_case, [(exe, dict(c, _i=i)) for i, c in enumerate(cases)], chunk=1):
        if "_error" in r:
            run.harness_errors.append(r["_error"])
            continue
        out[r["case"]["_i"]] = set(k for ev, k, d in r["ev"] if ev == "viol")
    return [out.get(i, set()) for i in range(len(cases))]


def replay_cli(doc, seed):
    run = core.Run(PID, "quick", seed, RULE)
    run.build("san")
    keys = replay_keys(run, [doc.get("case", doc)])[0]
    if keys:
        print("VIOLATION property=%s replay=- keys=%s" % (PID, sorted(keys)))
        return 1
    print("replay: no violation")
    return 0
