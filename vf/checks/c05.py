"""C05 - data/location directives place exactly the specified bytes.

Monitor: reference directive model (vf/ref/directives.py) vs the image the real
assembler builds (in-process, sanitizer build) and, for a sample, vs the decoded
Intel-HEX / binary files written by the real CLI.
"""
import os
import random
import zlib
import shutil
import tempfile

from .. import core, driver, proc
from ..fmt import decode
from ..ref import directives as D

RULE = ("seeded random directive programs (5..40 directives: .org forwards/backwards/overlapping/across 64 KiB pages, "
        ".db/.dc8/.ascii/.asciiz/.dw/.dc16/.dl/.dc32/.dd/.dc64/.dq with boundary values, strings with escapes, "
        ".resb/.resw/.align/.align_bytes/.data_fill/.binfile, endian switches, labels and $) on CPUs with 1/2/4/8 bytes "
        "per address and both byte orders, plus an enumerated boundary suite (each width's range limits, page ends, "
        "addresses up to 0xffffff00); image compared byte-for-byte and address-for-address with the reference model. "
        "distinct_nontrivial = distinct (directive bigram, cpu class) pairs in accepted, compared programs.")

CPUS = [("msp430", 1, False), ("avr8", 2, False), ("propeller", 4, False), ("ebpf", 8, False), ("68000", 1, True),
        ("z80", 1, False), ("lc3", 2, True), ("mips", 1, True)]

VALS = {
    1: [0, 1, 127, 128, 255, -1, -128, 0x41],
    2: [0, 1, 255, 256, 32767, 32768, 65535, -1, -32768, 0x1234],
    4: [0, 1, 65535, 65536, 0x7fffffff, 0x80000000, 0xffffffff, -1, -0x80000000, 0x12345678, 0x100000000, 0x1ffffffff],
    8: [0, 1, 0xffffffff, 0x100000000, 0x7fffffffffffffff, 0x8000000000000000, 0xffffffffffffffff, -1, 0x123456789abcdef0],
}
OUT_OF_RANGE = {1: [256, -129, 1000, -1000, 65536], 2: [65536, -32769, 100000, -100000]}


def num(v):
    if v >= 0 and v > 9:
        return ("num", v, "0x%x" % v)
    return ("num", v, str(v))


def gen_program(rng, cpu, bpa, allow_reject):
    stmts = []
    nlabel = 0
    labels = []
    n = rng.randint(5, 40)
    stmts.append(("org", rng.choice([0, 0x10, 0x100, 0x1000, 0xfff0 // bpa, 0xffe0 // bpa, 0x8000])))
    reject = False
    for _ in range(n):
        r = rng.random()
        if r < 0.10:
            choice = rng.random()
            if choice < 0.4:
                stmts.append(("org", rng.choice([0, 0x20, 0x200, 0x1000, 0xfff8 // bpa, 0x10000 // bpa, 0x1fff0 // bpa, 0x12345,
                                                  0x7fff0, rng.randint(0, 0x3000)])))
            else:
                stmts.append(("org", rng.randint(0, 0x400)))
        elif r < 0.18:
            name = "L%d" % nlabel
            nlabel += 1
            labels.append(name)
            stmts.append(("label", name))
        elif r < 0.22:
            stmts.append((rng.choice(["big_endian", "little_endian"]),))
        elif r < 0.28:
            stmts.append((rng.choice(["resb", "resw"]), rng.randint(0, 40)))
        elif r < 0.33:
            if rng.random() < 0.5:
                stmts.append(("align", rng.choice([16, 32, 64, 128])))
            else:
                stmts.append(("align_bytes", rng.choice([2, 4, 8, 16, 32])))
        elif r < 0.37:
            stmts.append(("data_fill", rng.choice([0, 1, 255, -1, -128, 0x5a]), rng.randint(1, 40)))
        else:
            k = rng.choice(["db", "db", "dc8", "ascii", "asciiz", "dw", "dw", "dc16", "dl", "dc32", "dd", "dc64", "dq"])
            width = {"db": 1, "dc8": 1, "ascii": 1, "asciiz": 1, "dw": 2, "dc16": 2, "dl": 4, "dc32": 4, "dd": 4, "dc64": 8, "dq": 8}[k]
            items = []
            for _ in range(rng.randint(1, 6)):
                q = rng.random()
                if width == 1 and (k in ("ascii", "asciiz") or q < 0.25):
                    items.append(D.make_string(rng))
                elif q < 0.35 and labels and width >= 2:
                    items.append(("sym", rng.choice(labels)))
                elif q < 0.42 and width >= 2:
                    items.append(("pc",))
                elif allow_reject and width in OUT_OF_RANGE and q > 0.985:
                    items.append(num(rng.choice(OUT_OF_RANGE[width])))
                    reject = True
                else:
                    v = rng.choice(VALS[width]) if rng.random() < 0.7 else rng.randint(-(1 << (8 * width - 1)), (1 << (8 * width)) - 1)
                    if width >= 4 and v > 0x7fffffffffffffff:
                        v = v
                    items.append(num(v))
            if k == "asciiz" and not any(i[0] == "str" for i in items):
                items = [D.make_string(rng)]
            stmts.append((k, items))
    # forward references: a label defined at the end, referenced earlier
    if rng.random() < 0.5:
        stmts.insert(rng.randint(1, len(stmts)), ("dc32", [("sym", "LEND")]))
        stmts.append(("label", "LEND"))
        stmts.append(("db", [num(0x7e)]))
    return stmts


def enumerated_programs():
    progs = []
    for cpu, bpa, big in CPUS:
        for width, k in ((1, "db"), (2, "dw"), (4, "dc32"), (8, "dc64")):
            for v in VALS[width]:
                progs.append((cpu, bpa, big, [("org", 0x100), (k, [num(v)])], "boundary-accept"))
            for v in OUT_OF_RANGE.get(width, []):
                progs.append((cpu, bpa, big, [("org", 0x100), (k, [num(v)]), ("db", [num(1)])], "boundary-reject"))
        for a in (0xfffe, 0xffff, 0x10000, 0x1fffe, 0xfffffe, 0x7ffffff0, 0xffff0000 // bpa * 1, 0xffffff00 // bpa):
            if a * bpa > 0xffffff80:
                continue
            progs.append((cpu, bpa, big, [("org", a // 1), ("dc32", [num(0x11223344), num(0x55667788)]), ("label", "E"),
                                          ("dc32", [("sym", "E")])], "page-edge"))
        progs.append((cpu, bpa, big, [("org", 0x100), ("db", [num(1), num(2)]), ("org", 0x100), ("db", [num(9)])], "overlap"))
        progs.append((cpu, bpa, big, [("org", 0x100), ("big_endian",), ("dw", [num(0x1234)]), ("little_endian",), ("dw", [num(0x1234)]),
                                      ("dc32", [num(0x11223344)]), ("big_endian",), ("dc64", [num(0x1122334455667788)])], "endian-switch"))
    return progs


def check_one(vd, cpu, bpa, big, stmts):
    try:
        want, labels = D.model(stmts, bpa, big)
        rejected = False
    except D.Rejected:
        want, labels, rejected = None, None, True
    src = D.render(stmts, cpu)
    r = vd.asm(src)
    viol = []
    if rejected:
        if r["rc"] == 0:
            viol.append(("accepted-out-of-range", "program with an out-of-range .db/.dw value was accepted"))
        return "reject-checked", viol, src
    if r["rc"] != 0 or r["exit"]:
        viol.append(("rejected-valid", "valid directive program rejected: %s" % r["out"].strip()[-160:]))
        return "rejected", viol, src
    got = r["img"]
    if got != want:
        only_model = sorted(set(want) - set(got))
        only_asm = sorted(set(got) - set(want))
        diff = sorted(a for a in want if a in got and want[a] != got[a])
        if only_model:
            viol.append(("missing-bytes", "byte 0x%02x expected at 0x%x is not in the image (%d missing)" % (want[only_model[0]], only_model[0], len(only_model))))
        elif only_asm:
            viol.append(("extra-bytes", "image holds a byte at 0x%x that no directive placed (%d extra)" % (only_asm[0], len(only_asm))))
        else:
            viol.append(("wrong-bytes", "at 0x%x the image holds 0x%02x, the directives denote 0x%02x (%d differing)" % (diff[0], got[diff[0]], want[diff[0]], len(diff))))
    syms = {s[0]: s[1] for s in r["syms"]}
    for name, v in labels.items():
        if syms.get(name) != v:
            viol.append(("label-value", "label %s = %s, model says 0x%x" % (name, syms.get(name), v)))
            break
    return "compared", viol, src


def bigrams(stmts):
    ks = [s[0] for s in stmts]
    return set(zip(ks, ks[1:]))


def work(item):
    kind, payload = item
    vd = core.get_vdrv(20)
    vd.set_timeout(5)
    out = {"n": 0, "stats": {}, "viol": [], "nt": set(), "sample": None}
    if kind == "enum":
        progs = payload
    else:
        seed, count, cpu_idx = payload
        rng = random.Random(seed)
        progs = []
        for _ in range(count):
            cpu, bpa, big = CPUS[cpu_idx]
            progs.append((cpu, bpa, big, gen_program(rng, cpu, bpa, True), "random"))
    for cpu, bpa, big, stmts, tag in progs:
        try:
            status, viol, src = check_one(vd, cpu, bpa, big, stmts)
        except driver.Died as e:
            ci = core.crash_info(e)
            if ci["kind"] in ("inconclusive", "lost"):
                out["stats"]["inconclusive"] = out["stats"].get("inconclusive", 0) + 1
            else:
                out["viol"].append(("%s/%s" % (tag, ci["sig"]), {"cpu": cpu, "bpa": bpa, "big": big, "stmts": stmts, "tag": tag},
                                    "%s directive program: %s" % (cpu, ci["sig"]), None))
            continue
        out["n"] += 1
        out["stats"][status] = out["stats"].get(status, 0) + 1
        if status in ("compared", "reject-checked"):
            for bg in bigrams(stmts):
                out["nt"].add((bg[0], bg[1], "bpa%d%s" % (bpa, "be" if big else "le")))
            if out["sample"] is None and status == "compared" and tag == "random":
                out["sample"] = {"cpu": cpu, "source": src[:600]}
        for k, desc in viol[:1]:
            feature = tag if tag != "random" else "+".join(sorted({s[0] for s in stmts}))[:60]
            inst = None if tag == "random" else "%08x" % zlib.crc32(src.encode())
            out["viol"].append(("%s/%s/bpa%d" % (k, tag, bpa), {"cpu": cpu, "bpa": bpa, "big": big, "stmts": stmts, "tag": tag},
                                "%s: %s\n%s" % (cpu, desc, src[:400]), inst))
    out["nt"] = sorted(out["nt"])
    return out


def cli_item(item):
    exe, cpu, bpa, big, stmts = item
    d = tempfile.mkdtemp(prefix="c05_")
    try:
        want, labels = D.model(stmts, bpa, big)
        src = D.render(stmts, cpu)
        core.write_tmp(d, "p.asm", src)
        viol = []
        o = proc.run([exe, "-type", "hex", "-o", "p.hex", "p.asm"], cwd=d, cpu_s=10)
        if o.san or o.signal:
            viol.append(("cli-crash", "hex run: %s" % (o.san["sig"] if o.san else "signal %s" % o.signal)))
        elif o.status != 0:
            viol.append(("cli-rejected-valid", "naken_asm -type hex exit %s: %s" % (o.status, o.stdout[-200:])))
        else:
            img, meta, errs = decode.ihex(open(os.path.join(d, "p.hex"), "rb").read())
            if errs:
                viol.append(("cli-hex-malformed", "; ".join(errs[:3])))
            elif img != want:
                viol.append(("cli-hex-image", "decoded hex file differs from the directive model (%d vs %d bytes)" % (len(img), len(want))))
        if want and max(want) - min(want) < (1 << 22):
            o = proc.run([exe, "-type", "bin", "-o", "p.bin", "p.asm"], cwd=d, cpu_s=10)
            if o.status == 0 and not o.signal:
                data = open(os.path.join(d, "p.bin"), "rb").read()
                lo = min(want)
                exp = bytes(want.get(a, 0) for a in range(lo, max(want) + 1))
                if data != exp:
                    viol.append(("cli-bin-image", "bin file differs from low..high of the model (len %d vs %d)" % (len(data), len(exp))))
        return {"viol": viol, "case": {"cpu": cpu, "bpa": bpa, "big": big, "stmts": stmts, "tag": "cli"}}
    except D.Rejected:
        return {"viol": [], "case": None}
    finally:
        shutil.rmtree(d, ignore_errors=True)


def main(run):
    run.build("san")
    quick = run.tier == "quick"
    items = []
    ep = enumerated_programs()
    for i in range(0, len(ep), 40):
        items.append(("enum", ep[i:i + 40]))
    nchunks = 320 if quick else 3200
    per = 40
    for i in range(nchunks):
        items.append(("rand", (run.seed * 1000003 + i, per, i % len(CPUS))))
    stats = {}
    for r in core.pmap(work, items, chunk=1):
        if run.handle_common(r):
            continue
        run.count(r["n"])
        for k, v in r["stats"].items():
            stats[k] = stats.get(k, 0) + v
        for x in r["nt"]:
            run.nt(tuple(x))
        if r["sample"]:
            run.sample(r["sample"], limit=3)
        for key, case, desc, inst in r["viol"]:
            run.violation(key, case, desc.replace("\n", " | "), instance=inst)
        for _ in range(r["stats"].get("inconclusive", 0)):
            run.inconc("wall watchdog")
    # CLI sample through real files
    exe = core.ARTS["san"]["naken_asm"]
    rng = random.Random(run.seed * 31 + 5)
    citems = []
    for i in range(48 if quick else 1500):
        cpu, bpa, big = CPUS[i % len(CPUS)]
        citems.append((exe, cpu, bpa, big, gen_program(rng, cpu, bpa, False)))
    ncli = 0
    for r in core.pmap(cli_item, citems, chunk=2):
        if run.handle_common(r):
            continue
        run.count()
        ncli += 1
        for k, desc in r["viol"]:
            run.violation("%s/bpa%d" % (k, r["case"]["bpa"]), r["case"], desc)
    run.cov["status_counts"] = stats
    run.cov["cli_file_comparisons"] = ncli
    run.assumptions = ["decimal -9223372036854775808 and unary minus of literals above 2^63-1 are not generated",
                       ".align_bytes is only used with powers of two; strings avoid a backslash followed by the digit 0",
                       "addresses >= 0xffffff80 are not generated"]
    run.require(">= 1000 programs compared", stats.get("compared", 0) >= 1000)
    run.require("out-of-range rejections exercised", stats.get("reject-checked", 0) >= 20)
    return run.finish(lambda cs: replay_keys(run, cs))


def norm_stmts(stmts):
    out = []
    for s in stmts:
        s = list(s)
        if len(s) > 1 and isinstance(s[1], list):
            items = []
            for it in s[1]:
                it = list(it)
                if it[0] == "str":
                    it[1] = list(it[1])
                items.append(tuple(it))
            s[1] = items
        out.append(tuple(s))
    return out


def replay_keys(run, cases):
    out = []
    vd = driver.Vdrv(core.ARTS["san"]["vdrv"])
    for c in cases:
        keys = set()
        try:
            stmts = norm_stmts(c["stmts"])
            status, viol, src = check_one(vd, c["cpu"], c["bpa"], c["big"], stmts)
            for k, desc in viol[:1]:
                keys.add("%s/%s/bpa%d" % (k, c.get("tag", "random"), c["bpa"]))
        except driver.Died as e:
            keys.add("%s/%s" % (c.get("tag", "random"), core.crash_info(e)["sig"]))
        out.append(keys)
    vd.close()
    return out


def replay_cli(doc, seed):
    run = core.Run("C05", "quick", seed, RULE)
    run.build("san")
    keys = replay_keys(run, [doc.get("case", doc)])[0]
    if keys:
        print("VIOLATION property=C05 replay=- keys=%s" % sorted(keys))
        return 1
    print("replay: no violation")
    return 0
