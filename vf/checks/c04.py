"""C04 - constant expressions evaluate to their arithmetic value.

Monitor: reference-model oracle (vf/ref/expr.py) over `.dc64 <expr>` assembled by
the real library in the in-process driver (sanitizer build), plus a CLI sample
for the exit-status / signal facts.
"""
import itertools
import os
import shutil
import tempfile

from .. import core, proc
from ..ref import expr as E

RULE = ("enumerated: every sequence of 1..3 (quick) / 1..4 (thorough) binary operators over the 10 operators x 3 operand "
        "vectors, unary -/~ in every operand position, parentheses at every split; generated: seeded random expression "
        "trees (depth<=6, <=40 tokens) over 64-bit boundary operands in every literal spelling; valueless expressions "
        "(zero divisors, dangling operators, unbalanced parentheses). distinct_nontrivial = distinct operator skeletons "
        "(precedence levels + parenthesis/unary structure) whose value was compared with the reference or whose "
        "rejection was checked.")

VECTORS = [(7, 3, 2, 5, 1), (1, 2, 3, 4, 5), (96, 5, 3, 2, 7)]

BOUNDARY = [0, 1, 2, 3, 7, 8, 9, 15, 16, 63, 64, 65, 127, 128, 255, 256, 32767, 32768, 65535, 65536,
            0x7fffffff, 0x80000000, 0xffffffff, 0x100000000, 0x123456789abcdef, 0x7fffffffffffffff,
            0x8000000000000000, 0xffffffffffffffff, 0xfedcba9876543210, 1000, 12345, 99, 100, 41, 97]


def num(v, spelling=None):
    return ("num", v, spelling if spelling is not None else E.spellings(v).get("dec", "0x%x" % v))


def mk_case(items, kind, rng=None):
    text = E.render_flat(items, rng)
    return {"kind": kind, "text": text, "items": items}


def enumerate_cases(maxops):
    cases = []
    for n in range(1, maxops + 1):
        for ops in itertools.product(E.BINOPS, repeat=n):
            for vec in VECTORS:
                items = []
                for i in range(n + 1):
                    items.append(num(vec[i]))
                    if i < n:
                        items.append(ops[i])
                cases.append(mk_case(items, "enum-ops"))
    # unary operators in every operand position of every 2-operator sequence
    for ops in itertools.product(E.BINOPS, repeat=2):
        for pos in range(3):
            for u in ("-", "~"):
                vec = VECTORS[0]
                items = []
                for i in range(3):
                    nd = num(vec[i])
                    if i == pos:
                        nd = ("un", u, nd)
                    items.append(nd)
                    if i < 2:
                        items.append(ops[i])
                cases.append(mk_case(items, "enum-unary"))
    # parentheses at every split of every 3-operator sequence (one vector)
    for ops in itertools.product(E.BINOPS, repeat=3):
        vec = VECTORS[1]
        flat = []
        for i in range(4):
            flat.append(num(vec[i]))
            if i < 3:
                flat.append(ops[i])
        for a in range(0, 4):
            for b in range(a + 1, 4):
                if a == 0 and b == 3:
                    continue
                items = flat[:2 * a] + [("par", flat[2 * a:2 * b + 1])] + flat[2 * b + 1:]
                cases.append(mk_case(items, "enum-paren"))
    return cases


def rand_operand(rng, depth):
    r = rng.random()
    if depth > 0 and r < 0.22:
        return ("par", rand_flat(rng, depth - 1, rng.randint(1, 4)))
    if r < 0.40:
        return ("un", rng.choice("-~"), rand_operand(rng, depth - 1) if depth > 0 and rng.random() < 0.3 else rand_num(rng))
    return rand_num(rng)


def rand_num(rng):
    r = rng.random()
    if r < 0.5:
        v = rng.choice(BOUNDARY)
    elif r < 0.8:
        v = rng.randint(0, 70)
    else:
        v = rng.getrandbits(rng.choice([8, 16, 32, 48, 64]))
    sp = E.spellings(v)
    k = rng.choice(sorted(sp))
    return ("num", v, sp[k])


def rand_flat(rng, depth, nops):
    items = [rand_operand(rng, depth)]
    for _ in range(nops):
        items.append(rng.choice(E.BINOPS))
        items.append(rand_operand(rng, depth))
    return items


def literal_cases():
    cases = []
    for v in BOUNDARY + [5, 10, 11, 0xab, 0xb1, 0xbeef, 0o777, 0b1011]:
        for name, s in sorted(E.spellings(v).items()):
            cases.append({"kind": "literal-" + name, "text": s, "items": [("num", v, s)]})
            cases.append({"kind": "literal-" + name, "text": "-" + s, "items": [("un", "-", ("num", v, s))]})
    return cases


def valueless_cases():
    out = []
    for op in ("/", "%"):
        for t in ("1 %s 0", "0 %s 0", "5 + 3 %s 0", "3 %s 0 + 5", "7 %s (2 - 2)", "7 %s (3 %% 3)", "1 %s 0x0", "-9 %s 0",
                  "2 * 3 %s 0 * 4", "1 | 2 %s 0", "(8 %s 0)", "~5 %s 0b0", "1 << 3 %s 0"):
            out.append({"kind": "valueless-divzero", "text": t % op})
    for t in ("1 +", "1 + * 2", "(1 + 2", "* 3", "1 2", "(", "1 + ( )", "1 << ", "3 & | 4", "5 5 +", "( 1 + 2 ) 3",
              "1 + (2 * )", "~", "-", "1 ^", "(((1))", "2 */ 3"):
        out.append({"kind": "valueless-malformed", "text": t})
    return out


def expected(case):
    """-> ("value", v) | ("novalue",) | ("masked", why)"""
    try:
        v = E.eval_flat(case["items"])
        return ("value", v & E.M64)
    except E.NoValue:
        return ("novalue",)
    except E.Ambiguous as e:
        return ("masked", str(e))


def run_case(case):
    """Worker: assemble `.dc64 <expr>` in the driver and compare."""
    vd = core.get_vdrv()
    src = ".dc64 %s\n" % case["text"]
    res = {"case": case, "viol": [], "nt": None, "status": None}
    kind = case["kind"]
    if kind.startswith("valueless"):
        exp = ("novalue",)
    else:
        exp = expected(case)
    if exp[0] == "masked":
        res["status"] = "masked"
        return res
    r = vd.asm(src)     # driver.Died propagates to pmap -> _crash
    skel = case.get("skel") or (E.skeleton(case["items"]) if "items" in case else kind)
    if exp[0] == "novalue":
        if r["rc"] == 0:
            lo = min(r["img"]) if r["img"] else 0
            got = bytes(r["img"].get(lo + i, 0) for i in range(8))
            res["viol"].append(("accepted-valueless/" + kind + "/" + case["text"].replace(" ", ""),
                                "expression without a value accepted: `%s` emitted %s" % (case["text"], got.hex())))
        elif "rror" not in r["out"]:
            res["viol"].append(("rejected-silently/" + kind, "`%s` rejected without a diagnostic" % case["text"]))
        res["status"] = "rejected-checked"
        res["nt"] = kind + ":" + case["text"].replace(" ", "")
        return res
    want = exp[1]
    if r["rc"] != 0:
        res["viol"].append(("rejected-valid/" + skel, "valid expression rejected: `%s` (%s)" % (case["text"], r["out"].strip()[:120])))
        res["status"] = "rejected"
        return res
    if len(r["img"]) != 8:
        res["viol"].append(("wrong-size/" + skel, "`.dc64 %s` emitted %d bytes" % (case["text"], len(r["img"]))))
        return res
    lo = min(r["img"])
    got = 0
    for i in range(8):
        got |= r["img"][lo + i] << (8 * i)
    if got != want:
        pre = "wrong-literal/" + kind if kind.startswith("literal") else "wrong-value/" + skel
        res["viol"].append((pre, "`.dc64 %s` emitted 0x%016x, arithmetic value is 0x%016x" % (case["text"], got, want)))
    res["status"] = "compared"
    res["nt"] = skel if not kind.startswith("literal") else kind + ":" + skel
    return res


def cli_case(args):
    """Run the real CLI on one expression; check status/signal/file rules."""
    exe, text, valueless = args
    d = tempfile.mkdtemp(prefix="c04_")
    try:
        core.write_tmp(d, "t.asm", ".dc64 %s\n" % text)
        o = proc.run([exe, "-type", "bin", "-o", "out.bin", "t.asm"], cwd=d, cpu_s=10)
        viol = []
        key_t = text.replace(" ", "")
        if o.san:
            viol.append(("cli-sanitizer/" + o.san["sig"], "`%s`: %s" % (text, o.san["sig"])))
        elif o.signal:
            viol.append(("cli-signal/%d/%s" % (o.signal, key_t), "`%s`: killed by signal %d" % (text, o.signal)))
        elif valueless:
            if o.status == 0:
                viol.append(("cli-accepted-valueless/" + key_t, "`%s`: exit 0" % text))
            elif "out.bin" in o.files:
                viol.append(("cli-output-left/" + key_t, "`%s`: failed but left out.bin" % text))
        else:
            if o.status != 0:
                viol.append(("cli-rejected-valid/" + key_t, "`%s`: exit %s" % (text, o.status)))
        return {"case": {"kind": "cli", "text": text, "valueless": valueless}, "viol": viol,
                "nt": "cli:" + key_t, "status": "cli"}
    finally:
        shutil.rmtree(d, ignore_errors=True)


def generate(run):
    rng = run.rng
    quick = run.tier == "quick"
    cases = enumerate_cases(3 if quick else 4)
    cases += literal_cases()
    cases += valueless_cases()
    nrand = 60000 if quick else 400000
    for i in range(nrand):
        depth = rng.choice([0, 1, 1, 2, 2, 3, 4, 5, 6])
        items = rand_flat(rng, min(depth, 6), rng.randint(1, 6))
        c = mk_case(items, "random", rng)
        if len(c["text"]) > 400:
            continue
        cases.append(c)
    return cases


def consume(run, r):
    if run.handle_common(r):
        return
    if "_crash" in r:
        ci = r["_crash"]
        case = r["_item"]
        if ci["kind"] == "inconclusive" or ci["kind"] == "lost":
            run.inconc(ci["sig"], case.get("text"))
            return
        run.count()
        key = "crash/%s/%s" % (ci["sig"], case["kind"])
        run.violation(key, case, "`.dc64 %s`: %s" % (case.get("text"), ci["sig"]))
        return
    run.count()
    if r["status"] == "masked":
        run.cov["masked"] = run.cov.get("masked", 0) + 1
        return
    if r.get("nt"):
        run.nt(r["nt"])
    st = r["status"] or "other"
    run.cov["status_" + st] = run.cov.get("status_" + st, 0) + 1
    for key, desc in r["viol"]:
        run.violation(key, r["case"], desc)
    if r["case"]["kind"] in ("random", "enum-paren") and len(run.samples) < 6 and st == "compared":
        run.sample({"expr": r["case"]["text"], "kind": r["case"]["kind"]})


def evaluate_cases(run, cases):
    drv = [c for c in cases if c["kind"] != "cli"]
    cli = [c for c in cases if c["kind"] == "cli"]
    for r in core.pmap(run_case, drv):
        yield r
    exe = core.ARTS["san"]["naken_asm"]
    for r in core.pmap(cli_case, [(exe, c["text"], c["valueless"]) for c in cli], chunk=4):
        yield r


def replay_keys(run, cases):
    out = []
    for c in cases:
        keys = set()
        for r in evaluate_cases(run, [c]):
            if "_crash" in r:
                keys.add("crash/%s/%s" % (r["_crash"]["sig"], c["kind"]))
            elif "viol" in r:
                keys.update(k for k, _ in r["viol"])
        out.append({k.replace(" ", "_") for k in keys})
    return out


def main(run):
    run.build("san")
    cases = generate(run)
    # CLI sample: all valueless + a seeded sample of valid expressions
    vl = [c for c in cases if c["kind"].startswith("valueless")]
    valid = [c for c in cases if c["kind"] in ("random", "enum-ops") and expected(c)[0] == "value"]
    ncli = 60 if run.tier == "quick" else 1500
    cli = [{"kind": "cli", "text": c["text"], "valueless": True} for c in vl]
    cli += [{"kind": "cli", "text": c["text"], "valueless": False} for c in run.rng.sample(valid, min(ncli, len(valid)))]
    for r in evaluate_cases(run, cases + cli):
        consume(run, r)
    run.exhaustive = False
    run.cov["enumerated_operator_sequences_max_len"] = 3 if run.tier == "quick" else 4
    run.assumptions = ["'/' and '%' truncate toward zero (C convention)",
                       "shift counts outside 0..63, >> of negative values and INT64_MIN/-1 are masked (not judged)",
                       "decimal literals above 2^63-1 are not generated"]
    run.require(">= 1000 expressions compared with the reference", run.cov.get("status_compared", 0) >= 1000)
    run.require("valueless expressions exercised", run.cov.get("status_rejected-checked", 0) >= 20)
    return run.finish(lambda cs: replay_keys(run, cs))


def replay_cli(doc, seed):
    run = core.Run("C04", "quick", seed, RULE)
    run.build("san")
    case = doc.get("case", doc)
    keys = replay_keys(run, [case])[0]
    if keys:
        print("VIOLATION property=C04 replay=- keys=%s" % sorted(keys))
        return 1
    print("replay: no violation")
    return 0
