"""C10 - conditional assembly includes exactly the branch its condition selects.

Monitor: reference interpreter (vf/ref/c10_cond.py) for the documented condition
grammar and for the block structure; every branch emits a unique marker byte and
the assembled image (in-process driver, sanitizer build) must be exactly the
marker sequence the reference selects.  Malformed conditionals and a sample of
the valid programs go through the real CLI for the exit-status facts.
"""
import copy
import itertools
import os
import shutil
import tempfile

from .. import core, proc
from ..driver import image_bytes
from ..ref import c10_cond as R

RULE = ("enumerated: every `.if` condition with 1..3 binary operators over {==,<,>,<=,>=,&&,||} (no unparenthesised "
        "comparison chains), every placement of one/two parenthesis groups, operand values {0,1,2}^k (all for <=2 operators, "
        "16 vectors for 3) spelled as number/.define/label, plus !, !!, defined(), !defined() and !( ) at every operand "
        "position of every <=2-operator shape; every chain of 1..3 nested .if/.ifdef/.ifndef x taken/untaken x with/without "
        ".else x then/else placement, untaken regions filled with labels, defines, macro definitions, junk tokens, comments "
        "and strings naming directives, followed by .ifdef probes of every name defined in a skipped region (quick: seeded "
        "sample of both enumerations); generated: seeded random conditions (depth<=3) and random block trees (depth<=10); "
        "malformed conditionals (unterminated, stray .else/.endif, empty/unbalanced/dangling conditions) through the CLI. "
        "distinct_nontrivial = distinct exact operator skeletons of conditions + distinct nesting skeletons + malformed "
        "texts whose outcome was compared with the reference.")

TMP = os.path.join(core.VERIF, ".work", "tmp")

COND_PRE = (".org 0\n.define D0 0\n.define D1 1\n.define D2 2\n.define DE\nL0:\n.db 0xee\nL1:\n.db 0xee\nL2:\n"
            ".macro MAC\n.db 0xed\n.endm\n")
PRE_BYTES = [0xee, 0xee]
M_THEN, M_ELSE, M_END = 0x11, 0x22, 0x33
DEFINED_T = ["D1", "L1", "DE", "MAC", "D0", "L0"]
DEFINED_F = ["UNDEF1", "NOPE", "d1"]


# ------------------------------------------------------------------ conditions

def atom(v, sp):
    sp %= 3
    if sp == 0:
        return ["num", v]
    if sp == 1:
        return ["def", "D%d" % v, v]
    return ["sym", "L%d" % v, v]


def paren_options(n):
    """list of lists of (a, b) operand ranges (inclusive) to parenthesise, for n operators."""
    k = n + 1
    opts = [[]]
    for a in range(k):
        for b in range(a + 1, k):
            if a == 0 and b == k - 1:
                continue
            opts.append([(a, b)])
    if n == 3:
        opts.append([(0, 1), (2, 3)])
    return opts


def build_flat(operands, ops, groups):
    flat = []
    for i, o in enumerate(operands):
        flat.append(o)
        if i < len(ops):
            flat.append(ops[i])
    # apply groups right-to-left so indices stay valid
    for a, b in sorted(groups, reverse=True):
        flat = flat[:2 * a] + [["par", flat[2 * a:2 * b + 1]]] + flat[2 * b + 1:]
    return flat


VEC3 = [(0, 0, 0, 0), (1, 1, 1, 1), (2, 1, 0, 2), (0, 1, 2, 0), (1, 0, 1, 0), (0, 1, 0, 1), (2, 2, 1, 0), (0, 0, 1, 2),
        (1, 2, 2, 1), (2, 0, 0, 1), (1, 1, 0, 0), (0, 2, 1, 1), (2, 1, 2, 0), (0, 0, 2, 2), (1, 0, 0, 2), (2, 2, 2, 2)]


def shapes(n):
    for ops in itertools.product(R.OPS, repeat=n):
        for groups in paren_options(n):
            yield ops, groups


def enum_conditions():
    """-> list of cases (seed independent, canonical order)."""
    cases = []
    idx = 0
    for n in (1, 2, 3):
        vecs = list(itertools.product((0, 1, 2), repeat=n + 1)) if n < 3 else VEC3
        for ops, groups in shapes(n):
            probe = build_flat([atom(1, 0)] * (n + 1), ops, groups)
            if not R.valid(probe):
                continue
            for vec in vecs:
                idx += 1
                operands = [atom(v, idx + i) for i, v in enumerate(vec)]
                cases.append(cond_case(build_flat(operands, ops, groups), "enum%d" % n))
    # unary / defined() decorations on every operand position of every <=2-operator shape
    for n in (1, 2):
        for ops, groups in shapes(n):
            probe = build_flat([atom(1, 0)] * (n + 1), ops, groups)
            if not R.valid(probe):
                continue
            for pos in range(n + 1):
                for dec in range(7):
                    for vi, vec in enumerate(((1, 0, 2), (0, 1, 1))):
                        idx += 1
                        operands = [atom(v, idx + i) for i, v in enumerate(vec[:n + 1])]
                        o = operands[pos]
                        if dec == 0:
                            o = ["not", o]
                        elif dec == 1:
                            o = ["not", ["not", o]]
                        elif dec == 2:
                            o = ["dfn", DEFINED_T[idx % len(DEFINED_T)], True]
                        elif dec == 3:
                            o = ["dfn", DEFINED_F[idx % len(DEFINED_F)], False]
                        elif dec == 4:
                            o = ["not", ["dfn", DEFINED_T[idx % len(DEFINED_T)], True]]
                        elif dec == 5:
                            o = ["not", ["dfn", DEFINED_F[idx % len(DEFINED_F)], False]]
                        operands[pos] = o
                        flat = build_flat(operands, ops, groups)
                        if dec == 6:
                            # negate every parenthesis group
                            if not groups:
                                continue
                            flat = [["not", x] if isinstance(x, list) and x[0] == "par" else x for x in flat]
                        cases.append(cond_case(flat, "enum-unary%d" % n))
    # single operands
    for v in (0, 1, 2):
        for sp in range(3):
            cases.append(cond_case([atom(v, sp)], "enum0"))
            cases.append(cond_case([["not", atom(v, sp)]], "enum0"))
            cases.append(cond_case([["par", [atom(v, sp)]]], "enum0"))
    for nm in DEFINED_T:
        cases.append(cond_case([["dfn", nm, True]], "enum0"))
        cases.append(cond_case([["not", ["dfn", nm, True]]], "enum0"))
    for nm in DEFINED_F:
        cases.append(cond_case([["dfn", nm, False]], "enum0"))
        cases.append(cond_case([["not", ["dfn", nm, False]]], "enum0"))
    seen, out = set(), []
    for c in cases:
        if c["text"] not in seen and R.valid(c["items"]):
            seen.add(c["text"])
            out.append(c)
    return out


def cond_case(flat, kind):
    return {"kind": "cond", "sub": kind, "text": R.render(flat), "items": flat}


# `<=`/`>=` are rejected outright by the unchanged tree (known finding), so they get a low weight
RAND_OPS = ["==", "<", ">", "&&", "||"] * 6 + ["<=", ">="]


def rand_operand(rng, depth):
    r = rng.random()
    if depth > 0 and r < 0.3:
        return ["par", rand_flat(rng, depth - 1, rng.randint(1, 3))]
    if r < 0.45:
        return ["not", rand_operand(rng, depth - 1) if depth > 0 else atom(rng.randint(0, 2), rng.randint(0, 2))]
    if r < 0.6:
        if rng.random() < 0.5:
            return ["dfn", rng.choice(DEFINED_T), True]
        return ["dfn", rng.choice(DEFINED_F), False]
    if r < 0.7:
        return ["num", rng.choice([3, 7, 10, 50, 255, 1000, 65535])]
    return atom(rng.randint(0, 2), rng.randint(0, 2))


def rand_flat(rng, depth, nops):
    while True:
        items = [rand_operand(rng, depth)]
        for _ in range(nops):
            items.append(rng.choice(RAND_OPS))
            items.append(rand_operand(rng, depth))
        if R.valid(items):
            return items


def run_cond(case):
    vd = core.get_vdrv()
    items = case["items"]
    want = R.eval_flat(items) != 0
    src = COND_PRE + ".if %s\n.db %d\n.else\n.db %d\n.endif\n.db %d\n" % (case["text"], M_THEN, M_ELSE, M_END)
    r = vd.asm(src)
    res = {"case": case, "viol": [], "nt": "cond:" + R.skeleton(items, True), "status": "cond-compared",
           "truth": want, "inst": case["text"] if case["sub"].startswith("enum") else None}
    ops = R.all_ops(items)
    sk = R.skeleton(items)
    if r["rc"] != 0:
        bad = sorted(o for o in ("<=", ">=") if o in ops)
        if bad and "Unknown equals_type" in r["out"]:
            key = "cond/le-ge-rejected/" + bad[0]
        else:
            key = "cond/rejected-valid/" + sk
        res["viol"].append((key, "valid condition rejected: `.if %s` (%s)" % (case["text"], r["out"].strip()[:100].replace("\n", " | "))))
        res["status"] = "cond-rejected"
        return res
    _, b = image_bytes(r["img"])
    got = list(b)
    exp = PRE_BYTES + [M_THEN if want else M_ELSE, M_END]
    if got != exp:
        other = PRE_BYTES + [M_ELSE if want else M_THEN, M_END]
        desc = "`.if %s` is %s under the documented semantics; image %s, expected %s" % (
            case["text"], "true" if want else "false", got, exp)
        if got == other:
            d = sorted(R.descents(items))
            g = sorted(R.paren_groups(items))
            if g:
                key = "cond/paren-frame/" + g[0]
            elif d:
                key = "cond/prec-descent/" + d[0]
            else:
                key = "cond/wrong-branch/" + sk
        else:
            key = "cond/bad-image/" + sk
        res["viol"].append((key, desc))
    return res


# ------------------------------------------------------------------ nestings

IF_T = ["1", "2 > 1", "defined(YES)", "!0", "1 == 1", "YES", "LYES == 0"]
IF_F = ["0", "1 > 2", "defined(NOPE)", "!1", "1 == 2", "!YES", "LYES"]
NEST_PRE = [["lab", "LYES"], ["define", "YES"], ["macro", "MYES", 0xed]]
NAMES_T = ["YES", "LYES", "MYES"]


class Builder(object):
    """builds block trees with unique markers/names; deterministic given the choice function."""

    def __init__(self, pick):
        self.pick = pick      # pick(n) -> int in [0, n)
        self.mid = 0
        self.nid = 0
        self.skipped_names = []
        self.taken_names = []

    def marker(self):
        self.mid += 1
        return ["m", 1 + (self.mid % 0xe0)]

    def name(self, p):
        self.nid += 1
        return "%s%d" % (p, self.nid)

    def filler(self, skipped):
        k = self.pick(6 if skipped else 4)
        if k == 0:
            n = self.name("lb")
            (self.skipped_names if skipped else self.taken_names).append(n)
            return [["lab", n]]
        if k == 1:
            n = self.name("df")
            (self.skipped_names if skipped else self.taken_names).append(n)
            return [["define", n]]
        if k == 2:
            n = self.name("mc")
            (self.skipped_names if skipped else self.taken_names).append(n)
            m = self.marker()[1]
            out = [["macro", n, m]]
            if not skipped:
                out.append(["call", n, m])
            return out
        if k == 3:
            return []
        if k == 4:
            return [["junk", self.pick(len(R.JUNK))]]
        return [["comment", self.pick(len(R.COMMENTS))], ["string", self.pick(len(R.STRINGS))]]

    def block(self, kind, truth, has_else, skipped, then_child=None, else_child=None):
        """then_child/else_child: functions(skipped)->items, or None."""
        if kind == "if":
            lst = IF_T if truth else IF_F
            cond = {"text": lst[self.pick(len(lst))], "truth": bool(truth)}
        else:
            d = truth if kind == "ifdef" else not truth
            if d:
                cond = {"name": NAMES_T[self.pick(len(NAMES_T))]}
            else:
                cond = {"name": self.skipped_names[-1] if self.skipped_names and self.pick(2) else "NOPE"}
        th_sk = skipped or not truth
        el_sk = skipped or truth
        th = [self.marker()] + self.filler(th_sk)
        if then_child:
            th += then_child(th_sk)
        th.append(self.marker())
        el = None
        if has_else:
            el = [self.marker()] + self.filler(el_sk)
            if else_child:
                el += else_child(el_sk)
            el.append(self.marker())
        return ["blk", kind, cond, th, el]

    def probes(self):
        out = []
        for n in self.skipped_names + self.taken_names:
            out.append(["blk", "ifdef", {"name": n}, [self.marker()], None])
        return out


VARIANTS = [(k, t, e) for k in ("if", "ifdef", "ifndef") for t in (True, False) for e in (True, False)]


def chain_program(spec):
    """spec: list of (variant index, placement 0=then 1=else) from outermost to innermost."""
    cnt = [sum((i + 1) * (v * 2 + p + 1) for i, (v, p) in enumerate(spec))]

    def pick(n):
        cnt[0] += 1
        return cnt[0] % n
    b = Builder(pick)

    def mk(level):
        def f(skipped):
            v, _ = spec[level]
            kind, truth, has_else = VARIANTS[v]
            tc = ec = None
            if level + 1 < len(spec):
                if spec[level + 1][1] == 0:
                    tc = mk(level + 1)
                else:
                    ec = mk(level + 1)
            return [b.block(kind, truth, has_else, skipped, tc, ec)]
        return f
    body = mk(0)(False)
    items = copy.deepcopy(NEST_PRE) + [b.marker()] + body + [b.marker()] + b.probes() + [b.marker()]
    return items


def enum_chains():
    cases = []
    for depth in (1, 2, 3):
        for vs in itertools.product(range(len(VARIANTS)), repeat=depth):
            placements = [[0]]
            for lvl in range(1, depth):
                parent_else = VARIANTS[vs[lvl - 1]][2]
                placements.append([0, 1] if parent_else else [0])
            for ps in itertools.product(*placements):
                spec = list(zip(vs, ps))
                cid = "chain:" + ".".join("%d%s" % (v, "te"[p]) for v, p in spec)
                cases.append({"kind": "nest", "sub": "enum-chain", "id": cid, "items": chain_program(spec)})
    return cases


def rand_tree(rng, maxdepth):
    b = Builder(lambda n: rng.randrange(n))

    def children(depth, skipped):
        def f(sk):
            out = []
            for _ in range(rng.choice([0, 1, 1, 2]) if depth < maxdepth else 0):
                kind, truth, has_else = rng.choice(VARIANTS)
                out.append(b.block(kind, truth, has_else, sk, children(depth + 1, sk), children(depth + 1, sk)))
                out.append(b.marker())
            return out
        return f
    body = []
    for _ in range(rng.randint(1, 3)):
        kind, truth, has_else = rng.choice(VARIANTS)
        body.append(b.block(kind, truth, has_else, False, children(1, False), children(1, False)))
        body.append(b.marker())
    return copy.deepcopy(NEST_PRE) + [b.marker()] + body + b.probes() + [b.marker()]


def nest_eval(vd, items):
    """-> (class or None, description)"""
    src = R.render_program(items)
    exp = R.expected_markers(items)
    r = vd.asm(src)
    if r["rc"] != 0:
        return "rejected-valid", "valid program rejected (%s)" % r["out"].strip()[:100].replace("\n", " | ")
    _, b = image_bytes(r["img"])
    if list(b) != exp:
        return "wrong-markers", "image markers %s, reference selects %s" % (list(b), exp)
    return None, ""


_PROBE_CACHE = {}


def tiny_probe(vd, outer_truth, kind, has_else):
    """minimal program: an untaken region (if-part of a false .if / else-part of a true .if)
    holding one complete `kind` conditional."""
    k = (outer_truth, kind, has_else)
    if k not in _PROBE_CACHE:
        inner = ["blk", kind, {"text": "1", "truth": True} if kind == "if" else {"name": "YES"}, [["m", 3]],
                 [["m", 4]] if has_else else None]
        if outer_truth:
            outer = ["blk", "if", {"text": "1", "truth": True}, [["m", 1]], [["m", 2], inner, ["m", 5]]]
        else:
            outer = ["blk", "if", {"text": "0", "truth": False}, [["m", 2], inner, ["m", 5]], None]
        items = [["define", "YES"], outer, ["m", 6]]
        cls, _ = nest_eval(vd, items)
        R.annotate(items)
        _PROBE_CACHE[k] = (cls, R.nest_skeleton(items))
    return _PROBE_CACHE[k]


def skipped_features(items, state=None, out=None):
    """set of (outer_truth, kind, has_else) for every conditional located in a skipped region;
    outer_truth = truth of the nearest enclosing evaluated conditional."""
    if out is None:
        out = set()
    for it in items:
        if it[0] != "blk":
            continue
        _, kind, cond, th, el = it
        if state is not None:
            out.add((state, kind, el is not None))
            skipped_features(th, state, out)
            if el is not None:
                skipped_features(el, state, out)
        else:
            t = bool(cond["_t"])
            skipped_features(th, None if t else False, out)
            if el is not None:
                skipped_features(el, True if t else None, out)
    return out


def open_ended(items, flag=False):
    """True if some evaluated conditional whose assembled part is its last part (then-part without
    .else, or else-part) lies inside the then-part of a taken conditional that has an .else.
    The nested assemble() started for such a part is not ended by its own .endif (known finding
    nest/.../ifT[ifF[|]|]: it runs on to the enclosing .else)."""
    for it in items:
        if it[0] != "blk":
            continue
        _, kind, cond, th, el = it
        t = bool(cond.get("_t"))
        if flag and ((t and el is None) or (not t and el is not None)):
            return True
        if t:
            if open_ended(th, flag or el is not None):
                return True
        elif el is not None:
            if open_ended(el, flag):
                return True
    return False


def cand_specs(items):
    """one-step reductions of a program as (path, action) descriptors, top-level first."""
    specs = []

    def walk(lst, path):
        for i, it in enumerate(lst):
            p = path + [i]
            if len(p) == 1 and it in NEST_PRE + [["define", "YES"]]:
                continue        # the fixed preamble carries the truth of the .if texts
            specs.append((p, "del"))
            if it[0] == "blk":
                if it[3]:
                    specs.append((p, "hoist3"))
                if it[4]:
                    specs.append((p, "hoist4"))
                if it[4] is not None:
                    specs.append((p, "noelse"))
                if it[1] != "if":
                    specs.append((p, "asif"))
                walk(it[3], p + [3])
                if it[4] is not None:
                    walk(it[4], p + [4])
    walk(items, [])
    specs.sort(key=lambda s: len(s[0]))
    return specs


def apply_spec(items, spec):
    p, act = spec
    c = copy.deepcopy(items)
    lst = c
    for j in range(0, len(p) - 1, 2):
        lst = lst[p[j]][p[j + 1]]
    it = lst[p[-1]]
    if act == "del":
        del lst[p[-1]]
    elif act == "hoist3":
        lst[p[-1]:p[-1] + 1] = it[3]
    elif act == "hoist4":
        lst[p[-1]:p[-1] + 1] = it[4]
    elif act == "noelse":
        it[4] = None
    elif act == "asif":
        t = bool(it[2].get("_t"))
        it[1] = "if"
        it[2] = {"text": "1" if t else "0", "truth": t}
    return c


def minimise(vd, items, budget=6000):
    """greedy one-step reduction to a fixpoint; -> (program, complete?)"""
    cur = items
    used = 0
    progress = True
    while progress:
        progress = False
        R.annotate(cur)
        specs = cand_specs(cur)
        i = 0
        while i < len(specs):
            if used >= budget:
                return cur, False
            c = apply_spec(cur, specs[i])
            try:
                R.expected_markers(c)
            except (ValueError, KeyError):
                i += 1
                continue
            used += 1
            cls, _ = nest_eval(vd, c)
            if cls:
                cur = c
                progress = True
                R.annotate(cur)
                specs = cand_specs(cur)     # same index now names the next candidate
            else:
                i += 1
    return cur, True


def run_nest(case):
    vd = core.get_vdrv()
    items = case["items"]
    R.annotate(items)
    sk = R.nest_skeleton(items)
    res = {"case": {k: v for k, v in case.items()}, "viol": [], "nt": "nest:" + sk, "status": "nest-compared",
           "inst": case.get("id")}
    cls, desc = nest_eval(vd, items)
    res["feat"] = len(skipped_features(items))
    if cls is None:
        return res
    res["status"] = "nest-" + cls
    explained = False
    for f in sorted(skipped_features(items), key=str):
        pc, psk = tiny_probe(vd, *f)
        if pc:
            explained = True
            res["viol"].append(("nest/%s/%s" % (pc, psk), "conditional inside a skipped region breaks the skip: " + desc))
    if not explained and open_ended(items):
        explained = True
        res["viol"].append(("nest/%s/ifT[ifF[|]|]" % cls, "nested assemble() of a taken last part runs past its .endif: " + desc))
    if not explained:
        small, complete = minimise(vd, items)
        if not complete:
            res["viol"] = []
            res["inconc"] = "minimisation budget exhausted"
            return res
        R.annotate(small)
        c2, d2 = nest_eval(vd, small)
        res["viol"].append(("nest/%s/%s" % (c2 or cls, R.nest_skeleton(small) or "flat"), d2 or desc))
        res["case"] = {"kind": "nest", "sub": case["sub"] + "-minimised", "items": small}
    return res


# ------------------------------------------------------------------ malformed (CLI)

def malformed_cases():
    out = []

    def add(cls, text):
        out.append({"kind": "malformed", "cls": cls, "text": text})
    for head in (".if 1", ".if 0", ".ifdef YES", ".ifdef NOPE", ".ifndef YES", ".ifndef NOPE"):
        add("unterminated", ".define YES 1\n%s\n.db 1\n" % head)
        add("unterminated", ".define YES 1\n%s\n.db 1\n.else\n.db 2\n" % head)
        add("unterminated", ".define YES 1\n.if 1\n%s\n.db 1\n.endif\n.db 3\n" % head)
        add("unterminated", ".define YES 1\n.if 0\n%s\n.db 1\n.endif\n.db 3\n" % head)
    add("stray-endif", ".db 1\n.endif\n")
    add("stray-endif", ".if 1\n.db 1\n.endif\n.endif\n")
    add("stray-endif", ".if 0\n.db 1\n.endif\n.endif\n.db 2\n")
    add("stray-endif", ".if 0\n.db 1\n.else\n.db 2\n.endif\n.db 3\n.endif\n")
    add("stray-else", ".db 1\n.else\n.db 2\n")
    add("stray-else", ".if 1\n.db 1\n.endif\n.else\n.db 2\n")
    add("stray-else", ".if 0\n.db 1\n.endif\n.else\n.db 2\n")
    add("double-else", ".if 1\n.db 1\n.else\n.db 2\n.else\n.db 3\n.endif\n")
    add("double-else", ".if 0\n.db 1\n.else\n.db 2\n.else\n.db 3\n.endif\n")
    for c in ("", "(", ")", "(1", "1)", "((1)", "1 &&", "&& 1", "1 ||", "== 1", "1 ==", "!", "1 1", "1 && && 1", "( )",
              "defined(", "defined()", "defined YES", "defined(YES", "1 + ", "1 == == 1", "(1 && ) 1", "!)"):
        add("bad-condition", ".define YES 1\n.if %s\n.db 1\n.endif\n.db 2\n" % c)
    for c in ("", "5", "(", "=="):
        add("bad-ifdef-name", ".ifdef %s\n.db 1\n.endif\n.db 2\n" % c)
        add("bad-ifdef-name", ".ifndef %s\n.db 1\n.endif\n.db 2\n" % c)
    return out


def run_cli(args):
    exe, case = args
    os.makedirs(TMP, exist_ok=True)
    d = tempfile.mkdtemp(prefix="c10_", dir=TMP)
    try:
        if case["kind"] == "malformed":
            src = case["text"]
        elif case["kind"] == "cond":
            src = COND_PRE + ".if %s\n.db %d\n.else\n.db %d\n.endif\n.db %d\n" % (case["text"], M_THEN, M_ELSE, M_END)
        else:
            src = R.render_program(case["items"])
        core.write_tmp(d, "t.asm", src)
        o = proc.run([exe, "-type", "bin", "-o", "out.bin", "t.asm"], cwd=d, cpu_s=10)
        res = {"case": case, "viol": [], "nt": None, "status": "cli-" + case["kind"], "inst": None}
        if o.timed_out or o.wall_killed:
            res["inconc"] = "cli watchdog"
            return res
        if o.san:
            res["viol"].append(("cli-sanitizer/" + o.san["sig"], "%r: %s" % (src[-80:], o.san["sig"])))
            return res
        if o.signal:
            res["viol"].append(("cli-signal/%d" % o.signal, "%r: killed by signal %d" % (src[-80:], o.signal)))
            return res
        if case["kind"] == "malformed":
            res["nt"] = "malformed:" + case["text"]
            res["inst"] = case["text"]
            if o.status == 0:
                diag = "diagnosed" if "rror" in o.stdout else "silent"
                res["viol"].append(("malformed/%s/exit0-%s" % (case["cls"], diag),
                                    "malformed conditional %r: exit status 0 (%s)" % (case["text"], diag)))
            return res
        # valid programs: the CLI must agree with the reference too
        if case["kind"] == "cond":
            want = R.eval_flat(case["items"]) != 0
            exp = PRE_BYTES + [M_THEN if want else M_ELSE, M_END]
        else:
            exp = R.expected_markers(case["items"])
        data = None
        if "out.bin" in o.files:
            with open(os.path.join(d, "out.bin"), "rb") as f:
                data = list(f.read(4096))
        res["cli"] = {"status": o.status, "data": data, "exp": exp}
        return res
    finally:
        shutil.rmtree(d, ignore_errors=True)


# ------------------------------------------------------------------ driver

def run_case(case):
    if case["kind"] == "cond":
        return run_cond(case)
    return run_nest(case)


def generate(run):
    rng = run.rng
    quick = run.tier == "quick"
    conds = enum_conditions()
    chains = enum_chains()
    run.cov["enumerated_conditions_total"] = len(conds)
    run.cov["enumerated_chains_total"] = len(chains)
    if quick:
        small = [c for c in conds if c["sub"] in ("enum0", "enum1", "enum2", "enum-unary1")]
        big = [c for c in conds if c["sub"] not in ("enum0", "enum1", "enum2", "enum-unary1")]
        nole = [c for c in big if "<=" not in c["text"] and ">=" not in c["text"]]
        le = [c for c in big if "<=" in c["text"] or ">=" in c["text"]]
        conds = small + rng.sample(nole, min(2200, len(nole))) + rng.sample(le, min(300, len(le)))
        d12 = [c for c in chains if c["id"].count(".") < 2]
        d3 = [c for c in chains if c["id"].count(".") >= 2]
        chains = d12 + rng.sample(d3, min(1500, len(d3)))
    cases = conds + chains
    for _ in range(1500 if quick else 40000):
        flat = rand_flat(rng, rng.choice([0, 1, 1, 2, 3]), rng.randint(1, 4))
        c = cond_case(flat, "random")
        if len(c["text"]) <= 300:
            cases.append(c)
    for _ in range(800 if quick else 20000):
        items = rand_tree(rng, rng.choice([1, 2, 2, 3, 3, 4, 6, 10]))
        if len(items) < 400 and len(R.render_program(items)) < 20000:
            cases.append({"kind": "nest", "sub": "random", "items": items})
    return cases


def crash_key(ci, case):
    return "crash/%s/%s" % (ci["sig"], case["kind"])


def consume(run, r, cli_state):
    if run.handle_common(r):
        return
    if "_crash" in r:
        ci = r["_crash"]
        case = r["_item"] if isinstance(r["_item"], dict) else r["_item"][1]
        if ci["kind"] in ("inconclusive", "lost") or ci["sig"] == "signal:15":
            # SIGTERM is never raised by the tool itself (other sessions on this machine kill stray workers)
            run.inconc(ci["sig"], case.get("text") or case.get("id"))
            return
        run.count()
        run.violation(crash_key(ci, case), case, "%s: %s" % (case.get("text") or case.get("id"), ci["sig"]))
        return
    if r.get("inconc"):
        run.inconc(r["inconc"], r["case"].get("text"))
        return
    run.count()
    if r.get("nt"):
        run.nt(r["nt"])
    st = r["status"]
    run.cov["status_" + st] = run.cov.get("status_" + st, 0) + 1
    case = r["case"]
    if st == "cond-compared":
        k = "cond_true" if r["truth"] else "cond_false"
        run.cov[k] = run.cov.get(k, 0) + 1
    if st.startswith("nest") and r.get("feat"):
        run.cov["nest_programs_with_conditionals_in_skipped_regions"] = \
            run.cov.get("nest_programs_with_conditionals_in_skipped_regions", 0) + 1
    if "cli" in r:
        c = r["cli"]
        # the CLI must behave like the library: compare with the reference, keyed like the driver results
        ok = c["status"] == 0 and c["data"] == c["exp"]
        cli_state["valid"] += 1
        if ok:
            cli_state["ok"] += 1
        else:
            cli_state["bad"].append(case)
    for key, desc in r["viol"]:
        run.violation(key, case, desc, instance=r.get("inst"))
    if len(run.samples) < 6 and not r["viol"] and case["kind"] in ("cond", "nest") and case.get("sub") == "random":
        run.sample({"kind": case["kind"], "src": case.get("text") or R.render_program(case["items"])[:400]})


def evaluate_cases(run, cases, cli_state=None):
    drv = [c for c in cases if not c.get("cli") and c["kind"] != "malformed"]
    cli = [c for c in cases if c.get("cli") or c["kind"] == "malformed"]
    for r in core.pmap(run_case, drv):
        yield r
    exe = core.ARTS["san"]["naken_asm"]
    for r in core.pmap(run_cli, [(exe, c) for c in cli], chunk=4):
        yield r


def replay_keys(run, cases):
    out = []
    for c in cases:
        keys = set()
        for r in evaluate_cases(run, [c]):
            if "_crash" in r:
                keys.add(crash_key(r["_crash"], c))
            elif "viol" in r:
                keys.update(k for k, _ in r["viol"])
        out.append({k.replace(" ", "_") for k in keys})
    return out


def main(run):
    run.build("san")
    os.makedirs(TMP, exist_ok=True)
    cases = generate(run)
    ncli = 60 if run.tier == "quick" else 1200
    pool = [c for c in cases if c["kind"] in ("cond", "nest")]
    cli = [dict(c, cli=True) for c in run.rng.sample(pool, min(ncli, len(pool)))]
    driver_ok = {}
    cli_state = {"valid": 0, "ok": 0, "bad": []}
    results = {}
    for r in evaluate_cases(run, cases + malformed_cases() + cli):
        if "case" in r and not r["case"].get("cli") and r["case"]["kind"] in ("cond", "nest"):
            driver_ok[r["case"].get("text") or r["case"].get("id") or id(r)] = not r["viol"]
        consume(run, r, cli_state)
    # a CLI run that disagrees with the reference where the library agreed is a violation of its own
    for case in cli_state["bad"]:
        k = case.get("text") or case.get("id")
        if driver_ok.get(k, False):
            run.violation("cli-disagrees-with-library/" + case["kind"], case,
                          "CLI output differs from the reference although the in-process library run matched")
    run.cov["cli_valid_runs"] = cli_state["valid"]
    run.cov["cli_valid_runs_matching_reference"] = cli_state["ok"]
    run.exhaustive = False
    run.assumptions = [
        "C precedence for the documented operators (comparison > && > ||), '!' binds to its operand, results are 0/1",
        "unparenthesised comparison chains, negative numbers, non-numeric defines and arithmetic are outside the domain",
        "labels are only tested after their definition (no forward references in conditions)",
        "text in skipped regions is lexically well-formed (no unterminated quotes/comments)",
        "defined(NAME) is true for .define'd names, labels and macros"]
    run.require(">= 1000 conditions compared with the reference", run.cov.get("status_cond-compared", 0) >= 1000)
    run.require("both truth values observed", run.cov.get("cond_true", 0) >= 100 and run.cov.get("cond_false", 0) >= 100)
    run.require(">= 300 nestings matched the reference", run.cov.get("status_nest-compared", 0) >= 300)
    run.require("conditionals inside skipped regions exercised",
                run.cov.get("nest_programs_with_conditionals_in_skipped_regions", 0) >= 100)
    run.require("malformed conditionals exercised", run.cov.get("status_cli-malformed", 0) >= 40)
    run.require("CLI sample of valid programs executed", cli_state["valid"] >= 20)
    return run.finish(lambda cs: replay_keys(run, cs))


def replay_cli(doc, seed):
    run = core.Run("C10", "quick", seed, RULE)
    run.build("san")
    case = doc.get("case", doc)
    keys = replay_keys(run, [case])[0]
    if keys:
        print("VIOLATION property=C10 replay=- keys=%s" % sorted(keys))
        return 1
    print("replay: no violation")
    return 0
