"""C01 - encode -> decode -> encode is a fixpoint; the disassembler walk consumes
exactly the emitted bytes; MSP430 / RV32I encodings equal the manuals'.

T --real assembler at A--> B --real disassembler walk--> T' --real assembler at A--> B'
"""
import zlib

from .. import core, driver, rt
from ..gen import corpus

RULE = ("instruction-form corpus (tests/comparison/*.txt, 49 CPU files) x operand substitution (numeric literals -> "
        "boundary values, register numbers -> other members of the class) x load addresses; each accepted text is "
        "assembled by the real assembler, the real disassembler is walked over exactly the emitted bytes, the joined "
        "disassembly is re-assembled at the same address; clause (c): reference MSP430 and RV32I encoders written from "
        "the manuals. distinct_nontrivial = distinct (cpu, mnemonic, operand shape) with at least one decisive "
        "(accepted and compared) round trip.")

ADDRS_Q = [0x1000, 0]
ADDRS_T = [0x1000, 0, 0xfe00]


def iid(cpu, text, addr):
    return "%08x" % zlib.crc32(("%s|%s|%x" % (cpu, text, addr)).encode())


def one(vd, cpu, bpa, text, addr):
    """-> (status, viol list[(kind, desc)])"""
    r = rt.asm_text(vd, cpu, addr, text, bpa)
    if not r["ok"]:
        return "asm-rejected", []
    B = r["bytes"]
    if not B:
        return "no-bytes", []
    if r.get("holes"):
        return "non-contiguous", []
    lo = r["lo"]
    w = rt.walk(vd, cpu, lo, B)
    viol = []
    end = (w[-1][0] + w[-1][1]) if w else lo
    bad_step = [s for s in w if s[1] <= 0]
    if bad_step or end != lo + len(B):
        viol.append(("walk", "`%s` at 0x%x emitted %s (%d bytes) but the disassembler walk consumed %d: %s" % (
            text, lo, B.hex(), len(B), end - lo, [(hex(a), n, t) for a, n, t in w][:4])))
        return "walk-mismatch", viol
    lines = [x[2] for x in w]
    if any(rt.is_unknown(x) for x in lines):
        return "decoded-unknown", viol
    t2 = "\n  ".join(lines)
    r2 = rt.asm_text(vd, cpu, lo, t2, 1, delay_nop=False)
    if not r2["ok"]:
        t3 = "\n  ".join(rt.strip_annotations(x) for x in lines)
        if t3 != t2:
            r2 = rt.asm_text(vd, cpu, lo, t3, 1, delay_nop=False)
    if not r2["ok"]:
        return "reasm-rejected", viol
    if r2["bytes"] != B or r2["lo"] != lo:
        viol.append(("diff", "`%s` at 0x%x -> %s -> `%s` -> %s" % (text, lo, B.hex(), "; ".join(lines), (r2["bytes"] or b"").hex())))
        return "diff", viol
    return "fixpoint", viol


def work(item):
    cpu, bpa, cases = item
    vd = core.get_vdrv(20)
    vd.set_timeout(3)
    out = {"cpu": cpu, "stats": {}, "viol": [], "nt": set(), "sample": None}
    st = out["stats"]
    hangs = 0
    for text, addr in cases:
        if hangs >= 4:
            st["skipped-after-hangs"] = st.get("skipped-after-hangs", 0) + 1
            continue
        try:
            status, viol = one(vd, cpu, bpa, text, addr)
        except driver.Died as e:
            ci = core.crash_info(e)
            if ci["kind"] in ("inconclusive", "lost"):
                st["inconclusive"] = st.get("inconclusive", 0) + 1
                continue
            if ci["kind"] == "hang":
                hangs += 1
            st["crash"] = st.get("crash", 0) + 1
            out["viol"].append(("%s/%s/%s" % (cpu, corpus.mnemonic(text), ci["sig"]), iid(cpu, text, addr),
                                {"cpu": cpu, "text": text, "addr": addr}, "%s `%s` at 0x%x: %s" % (cpu, text, addr, ci["sig"])))
            continue
        st[status] = st.get(status, 0) + 1
        if status in ("fixpoint", "diff", "walk-mismatch"):
            out["nt"].add((cpu, corpus.mnemonic(text), corpus.shape(text)))
            if out["sample"] is None and status == "fixpoint":
                out["sample"] = {"cpu": cpu, "text": text, "addr": addr, "status": status}
        for kind, desc in viol:
            out["viol"].append(("%s/%s/%s" % (cpu, corpus.mnemonic(text), kind), iid(cpu, text, addr),
                                {"cpu": cpu, "text": text, "addr": addr}, cpu + ": " + desc))
    out["nt"] = sorted(out["nt"])
    return out


def gen_cases(run, cpuinfo):
    import random
    C = corpus.load()
    quick = run.tier == "quick"
    items = []
    for cpu in sorted(C):
        if cpu not in cpuinfo:
            continue
        lines = C[cpu]
        bpa = cpuinfo[cpu]["bpa"]
        classes = corpus.reg_classes(lines)
        rng = random.Random(run.seed * 7919 + zlib.crc32(cpu.encode()))
        cases = []
        seen = set()
        for ln in lines:
            for a in (ADDRS_Q if quick else ADDRS_T):
                cases.append((ln, a))
            vs = corpus.variants(ln, classes, rng, 10 if quick else None, 3 if quick else None)
            for v, what in vs:
                if v in seen:
                    continue
                seen.add(v)
                cases.append((v, 0x1000))
        for i in range(0, len(cases), 250):
            items.append((cpu, bpa, cases[i:i + 250]))
    return items


def consume(run, r, totals):
    n = sum(r["stats"].values())
    run.count(n)
    pc = totals.setdefault(r["cpu"], {})
    for k, v in r["stats"].items():
        pc[k] = pc.get(k, 0) + v
    for x in r["nt"]:
        run.nt(tuple(x))
    if r["sample"]:
        run.sample(r["sample"], limit=6)
    for key, inst, case, desc in r["viol"]:
        run.violation(key, case, desc, instance=inst)
    for _ in range(r["stats"].get("inconclusive", 0)):
        run.inconc("wall watchdog", r["cpu"])


def main(run):
    run.build("san")
    vd = driver.Vdrv(core.ARTS["san"]["vdrv"])
    cpuinfo = {c["name"]: c for c in vd.cpus()}
    vd.close()
    totals = {}
    for r in core.pmap(work, gen_cases(run, cpuinfo), chunk=1):
        if run.handle_common(r):
            continue
        consume(run, r, totals)
    # clause (c)
    from . import c01c
    c01c.run_clause_c(run, cpuinfo)
    run.cov["per_cpu"] = totals
    agg = {}
    for pc in totals.values():
        for k, v in pc.items():
            agg[k] = agg.get(k, 0) + v
    run.cov["status_counts"] = agg
    decisive_cpus = len({c for c, _, _ in [x for x in run.nontrivial if len(x) == 3]})
    run.cov["cpus_with_decisive_round_trips"] = decisive_cpus
    run.assumptions = ["a disassembly the assembler rejects is vacuous and counted (reasm-rejected)",
                       "CPUs without a tests/comparison file are reached from the binary side by C07",
                       "operands are boundary values, not all 2^32"]
    run.require(">= 45 CPUs with decisive round trips", decisive_cpus >= 45)
    return run.finish(lambda cs: replay_keys(run, cs))


def _replay_one(item):
    i, c, bpa = item
    r = work((c["cpu"], bpa, [(c["text"], c["addr"])]))
    return {"keys": sorted({k for k, _, _, _ in r["viol"]}), "id": i}


def replay_keys(run, cases):
    vd = driver.Vdrv(core.ARTS["san"]["vdrv"])
    cpuinfo = {c["name"]: c for c in vd.cpus()}
    vd.close()
    from . import c01c
    out = [set() for _ in cases]
    items = []
    for i, c in enumerate(cases):
        if c.get("clause") == "c":
            out[i] = c01c.replay(c)
            continue
        items.append((i, c, cpuinfo[c["cpu"]]["bpa"]))
    for r in core.pmap(_replay_one, items, chunk=4):
        if "keys" in r:
            out[r["id"]] = set(r["keys"])
    return out


def replay_cli(doc, seed):
    run = core.Run("C01", "quick", seed, RULE)
    run.build("san")
    keys = replay_keys(run, [doc.get("case", doc)])[0]
    if keys:
        print("VIOLATION property=C01 replay=- keys=%s" % sorted(keys))
        return 1
    print("replay: no violation")
    return 0
