"""MSP430 (16-bit core) instruction encoder written from the family user's
guide (SLAU049/SLAU144 chapter 3: instruction formats, addressing modes,
constant generators).  Returns the SET of architecturally valid encodings of
an instruction (an immediate the constant generators can produce may be encoded
either way)."""

TWO = {"mov": 4, "add": 5, "addc": 6, "subc": 7, "sub": 8, "cmp": 9, "dadd": 10, "bit": 11, "bic": 12, "bis": 13,
       "xor": 14, "and": 15}
ONE = {"rrc": 0, "swpb": 1, "rra": 2, "sxt": 3, "push": 4, "call": 5}
JUMPS = {"jne": 0, "jnz": 0, "jeq": 1, "jz": 1, "jnc": 2, "jlo": 2, "jc": 3, "jhs": 3, "jn": 4, "jge": 5, "jl": 6, "jmp": 7}

CG = {0: (3, 0), 1: (3, 1), 2: (3, 2), -1: (3, 3), 4: (2, 2), 8: (2, 3)}


def w(v):
    return v & 0xffff


def src_modes(op, ext_addr, byte):
    """op: ("reg", n) ("idx", x, n) ("sym", addr) ("abs", addr) ("ind", n) ("inc", n) ("imm", v)
    -> list of (reg, As, [ext words])"""
    k = op[0]
    if k == "reg":
        return [(op[1], 0, [])]
    if k == "idx":
        return [(op[2], 1, [w(op[1])])]
    if k == "sym":
        return [(0, 1, [w(op[1] - ext_addr)])]
    if k == "abs":
        return [(2, 1, [w(op[1])])]
    if k == "ind":
        return [(op[1], 2, [])]
    if k == "inc":
        return [(op[1], 3, [])]
    if k == "imm":
        v = op[1]
        res = [(0, 3, [w(v)])]
        sv = v
        if byte:
            # byte immediates: 0xff means -1 for the constant generator as well
            if (v & 0xff) == 0xff and -256 <= v <= 255:
                sv = -1
        else:
            if w(v) == 0xffff:
                sv = -1
        if sv in CG:
            r, a = CG[sv]
            res.append((r, a, []))
        return res
    raise ValueError(op)


def dst_mode(op, ext_addr):
    k = op[0]
    if k == "reg":
        return (op[1], 0, [])
    if k == "idx":
        return (op[2], 1, [w(op[1])])
    if k == "sym":
        return (0, 1, [w(op[1] - ext_addr)])
    if k == "abs":
        return (2, 1, [w(op[1])])
    raise ValueError(op)


def words_to_bytes(ws):
    b = bytearray()
    for x in ws:
        b.append(x & 0xff)
        b.append(x >> 8)
    return bytes(b)


def enc_two(m, byte, src, dst, pc):
    res = set()
    for sreg, As, sext in src_modes(src, pc + 2, byte):
        dreg, Ad, dext = dst_mode(dst, pc + 2 + 2 * len(sext))
        word = (TWO[m] << 12) | (sreg << 8) | (Ad << 7) | ((1 if byte else 0) << 6) | (As << 4) | dreg
        res.add(words_to_bytes([word] + sext + dext))
    return res


def enc_one(m, byte, op, pc):
    res = set()
    for reg, As, ext in src_modes(op, pc + 2, byte):
        word = 0x1000 | (ONE[m] << 7) | ((1 if byte else 0) << 6) | (As << 4) | reg
        res.add(words_to_bytes([word] + ext))
    return res


def enc_jump(m, target, pc):
    off = (target - (pc + 2)) // 2
    return {words_to_bytes([0x2000 | (JUMPS[m] << 10) | (off & 0x3ff)])}


RETI = {words_to_bytes([0x1300])}


def fmt_op(op):
    k = op[0]
    if k == "reg":
        return "r%d" % op[1]
    if k == "idx":
        return "%d(r%d)" % (op[1], op[2])
    if k == "sym":
        return "0x%04x" % op[1]
    if k == "abs":
        return "&0x%04x" % op[1]
    if k == "ind":
        return "@r%d" % op[1]
    if k == "inc":
        return "@r%d+" % op[1]
    if k == "imm":
        return "#%d" % op[1] if op[1] < 0 else "#0x%x" % op[1]
    raise ValueError(op)


def cases(pc):
    """Yield (text, set of valid encodings, form)."""
    out = []
    srcs = [("reg", 4), ("reg", 15), ("reg", 1), ("idx", 6, 4), ("idx", -2, 9), ("idx", 0x7ffe, 12), ("sym", 0x1234), ("sym", 0x0200),
            ("abs", 0x1234), ("abs", 0xfffe), ("ind", 5), ("ind", 14), ("inc", 6), ("inc", 13),
            ("imm", 0x1234), ("imm", 0), ("imm", 1), ("imm", 2), ("imm", 4), ("imm", 8), ("imm", -1), ("imm", 3), ("imm", 16),
            ("imm", 0x7fff), ("imm", -32768), ("imm", 0xff), ("imm", 0x80)]
    dsts = [("reg", 7), ("reg", 15), ("reg", 4), ("idx", 6, 7), ("idx", -4, 10), ("sym", 0x5678), ("abs", 0x0202), ("abs", 0xfffe)]
    k = 0
    for m in sorted(TWO):
        for byte in (False, True):
            for si, s in enumerate(srcs):
                if byte and s[0] == "imm" and not (-128 <= s[1] <= 255):
                    continue
                d = dsts[(k + si) % len(dsts)]
                k += 1
                text = "%s.%s %s, %s" % (m, "b" if byte else "w", fmt_op(s), fmt_op(d))
                out.append((text, enc_two(m, byte, s, d, pc), "%s.%s/%s/%s" % (m, "b" if byte else "w", s[0], d[0])))
        for di, d in enumerate(dsts):
            s = srcs[(k * 3 + di) % len(srcs)]
            k += 1
            text = "%s.w %s, %s" % (m, fmt_op(s), fmt_op(d))
            out.append((text, enc_two(m, False, s, d, pc), "%s.w/%s/%s" % (m, s[0], d[0])))
    for m in sorted(ONE):
        for byte in (False, True):
            if byte and m in ("swpb", "sxt", "call"):
                continue
            for s in srcs:
                if s[0] == "imm" and m in ("rrc", "swpb", "rra", "sxt"):
                    continue
                if byte and s[0] == "imm" and not (-128 <= s[1] <= 255):
                    continue
                suf = "" if m in ("swpb", "sxt", "call") else (".b" if byte else ".w")
                text = "%s%s %s" % (m, suf, fmt_op(s))
                out.append((text, enc_one(m, byte, s, pc), "%s%s/%s" % (m, suf, s[0])))
    for m in sorted(JUMPS):
        for off in (0, 2, -2, 4, 0x154, -0x156, 1022, -1024, 512, -512):
            t = pc + 2 + off
            if t < 0:
                continue
            out.append(("%s 0x%04x" % (m, t), enc_jump(m, t, pc), m))
    out.append(("reti", RETI, "reti"))
    return out
