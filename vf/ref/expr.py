"""Reference model for C04: 64-bit two's-complement constant expressions with
the documented precedence, written from the statement (not from the code).

AST nodes:
  ("num", value, spelling)      value >= 0, spelling is the literal text
  ("un", op, child)             op in "-", "~"
  ("bin", op, left, right)
  ("par", child)
"""

M64 = (1 << 64) - 1

# tighter binds first (higher number = tighter)
PREC = {"*": 6, "/": 6, "%": 6, "+": 5, "-": 5, "<<": 4, ">>": 4, "&": 3, "^": 2, "|": 1}
BINOPS = ["*", "/", "%", "+", "-", "<<", ">>", "&", "^", "|"]


def s64(v):
    v &= M64
    return v - (1 << 64) if v >> 63 else v


class Ambiguous(Exception):
    """The statement does not settle this expression's value (masked)."""


class NoValue(Exception):
    """The expression has no value (division/modulo by zero)."""


def apply(op, a, b):
    """a, b signed 64-bit python ints; returns signed 64-bit."""
    if op == "*":
        return s64(a * b)
    if op == "+":
        return s64(a + b)
    if op == "-":
        return s64(a - b)
    if op in ("/", "%"):
        if b == 0:
            raise NoValue()
        if a == -(1 << 63) and b == -1:
            raise Ambiguous("INT64_MIN / -1")
        q = abs(a) // abs(b)
        if (a < 0) != (b < 0):
            q = -q
        if op == "/":
            return s64(q)
        return s64(a - q * b)
    if op in ("<<", ">>"):
        if b < 0 or b > 63:
            raise Ambiguous("shift count outside 0..63")
        if op == "<<":
            return s64(a << b)
        if a < 0:
            raise Ambiguous(">> of a negative value")
        return a >> b
    if op == "&":
        return s64(a & b)
    if op == "^":
        return s64(a ^ b)
    if op == "|":
        return s64(a | b)
    raise ValueError(op)


def evaluate(node):
    """Evaluate a *structural* AST (the tree the generator intends)."""
    t = node[0]
    if t == "num":
        return s64(node[1])
    if t == "par":
        return evaluate(node[1])
    if t == "un":
        v = evaluate(node[2])
        return s64(-v) if node[1] == "-" else s64(~v)
    if t == "bin":
        return apply(node[1], evaluate(node[2]), evaluate(node[3]))
    raise ValueError(t)


# ---------------------------------------------------------------- flat form
# A flat expression is a token list: operands (AST nodes that are num / un /
# par) alternating with binary operator strings.  Its value is defined by
# precedence climbing with left association: this is the statement's rule.

def eval_flat(items):
    """items: [operand, op, operand, op, ...]; operands are AST nodes whose
    own structure is explicit (num, un, par(flat...))."""
    pos = [0]

    def operand():
        node = items[pos[0]]
        pos[0] += 1
        return eval_node(node)

    def climb(minp):
        left = operand()
        while pos[0] < len(items):
            op = items[pos[0]]
            p = PREC[op]
            if p < minp:
                break
            pos[0] += 1
            right = climb(p + 1)
            left = apply(op, left, right)
        return left

    v = climb(0)
    return v


def eval_node(node):
    t = node[0]
    if t == "num":
        return s64(node[1])
    if t == "un":
        v = eval_node(node[2])
        return s64(-v) if node[1] == "-" else s64(~v)
    if t == "par":
        return eval_flat(node[1])
    raise ValueError(t)


def render_node(node, rng=None):
    t = node[0]
    if t == "num":
        return node[2]
    if t == "un":
        inner = render_node(node[2], rng)
        sp = " " if (rng is not None and rng.random() < 0.2) else ""
        return node[1] + sp + inner
    if t == "par":
        inner = render_flat(node[1], rng)
        if rng is not None and rng.random() < 0.3:
            return "( " + inner + " )"
        return "(" + inner + ")"
    raise ValueError(t)


def render_flat(items, rng=None):
    out = []
    for i, it in enumerate(items):
        if i % 2 == 0:
            out.append(render_node(it, rng))
        else:
            tight = rng is not None and rng.random() < 0.35
            if tight and it == "/":
                tight = False   # "a/*" or "a//" would start a comment
            out.append(it if tight else " " + it + " ")
    return "".join(out)


def skeleton(items):
    """Operator skeleton: precedence levels and parenthesis structure, operands
    and concrete operators erased.  Used as the finding key."""
    out = []
    for i, it in enumerate(items):
        if i % 2 == 1:
            out.append(str(PREC[it]))
        else:
            out.append(skel_node(it))
    return "".join(out)


def skel_node(node):
    t = node[0]
    if t == "num":
        return "n"
    if t == "un":
        return node[1] + skel_node(node[2])
    if t == "par":
        return "(" + skeleton(node[1]) + ")"
    return "?"


# ---------------------------------------------------------------- literals

def spellings(v):
    """All documented spellings of the non-negative value v (< 2**64)."""
    out = {}
    if v < (1 << 63):
        out["dec"] = "%d" % v
    out["0x"] = "0x%x" % v
    out["0X-upperdigits"] = "0x%X" % v
    h = "%x" % v
    if not h[0].isdigit():
        h = "0" + h
    if not (h[0] == "0" and len(h) > 1 and h[1] in "bx"):
        out["h"] = h + "h"
    b = "{0:b}".format(v)
    out["0b"] = "0b" + b
    out["b"] = b + "b"
    o = "%o" % v
    out["q"] = o + "q"
    if v > 0:
        out["0oct"] = "0" + o
    if 32 <= v <= 126 and chr(v) not in "'\\":
        out["char"] = "'%s'" % chr(v)
    if v >= 1000 and v < (1 << 63):
        d = "%d" % v
        out["dec_"] = d[:-3] + "_" + d[-3:]
    if v >= 0x100:
        hh = "%x" % v
        out["0x_"] = "0x" + hh[:-2] + "_" + hh[-2:]
    if v >= 16:
        out["b_"] = b[:-4] + "_" + b[-4:] + "b"
        out["0b_"] = "0b" + b[:-4] + "_" + b[-4:]
    return out
