"""RV32I base instruction encoder written from the RISC-V unprivileged spec
(chapter 2 and the RV32I base opcode table).  Independent of naken_asm."""

R = {"add": (0, 0), "sub": (0, 0x20), "sll": (1, 0), "slt": (2, 0), "sltu": (3, 0), "xor": (4, 0), "srl": (5, 0),
     "sra": (5, 0x20), "or": (6, 0), "and": (7, 0)}
I_ALU = {"addi": 0, "slti": 2, "sltiu": 3, "xori": 4, "ori": 6, "andi": 7}
SHIFT = {"slli": (1, 0), "srli": (5, 0), "srai": (5, 0x20)}
LOAD = {"lb": 0, "lh": 1, "lw": 2, "lbu": 4, "lhu": 5}
STORE = {"sb": 0, "sh": 1, "sw": 2}
BRANCH = {"beq": 0, "bne": 1, "blt": 4, "bge": 5, "bltu": 6, "bgeu": 7}


def _u(v, bits):
    return v & ((1 << bits) - 1)


def enc_r(m, rd, rs1, rs2):
    f3, f7 = R[m]
    return (f7 << 25) | (rs2 << 20) | (rs1 << 15) | (f3 << 12) | (rd << 7) | 0x33


def enc_i(m, rd, rs1, imm):
    return (_u(imm, 12) << 20) | (rs1 << 15) | (I_ALU[m] << 12) | (rd << 7) | 0x13


def enc_shift(m, rd, rs1, sh):
    f3, f7 = SHIFT[m]
    return (f7 << 25) | ((sh & 31) << 20) | (rs1 << 15) | (f3 << 12) | (rd << 7) | 0x13


def enc_load(m, rd, rs1, imm):
    return (_u(imm, 12) << 20) | (rs1 << 15) | (LOAD[m] << 12) | (rd << 7) | 0x03


def enc_store(m, rs2, rs1, imm):
    i = _u(imm, 12)
    return ((i >> 5) << 25) | (rs2 << 20) | (rs1 << 15) | (STORE[m] << 12) | ((i & 31) << 7) | 0x23


def enc_branch(m, rs1, rs2, off):
    i = _u(off, 13)
    return (((i >> 12) & 1) << 31) | (((i >> 5) & 0x3f) << 25) | (rs2 << 20) | (rs1 << 15) | (BRANCH[m] << 12) | \
        (((i >> 1) & 0xf) << 8) | (((i >> 11) & 1) << 7) | 0x63


def enc_jal(rd, off):
    i = _u(off, 21)
    return (((i >> 20) & 1) << 31) | (((i >> 1) & 0x3ff) << 21) | (((i >> 11) & 1) << 20) | (((i >> 12) & 0xff) << 12) | \
        (rd << 7) | 0x6f


def enc_jalr(rd, rs1, imm):
    return (_u(imm, 12) << 20) | (rs1 << 15) | (rd << 7) | 0x67


def enc_lui(rd, imm20):
    return (_u(imm20, 20) << 12) | (rd << 7) | 0x37


def enc_auipc(rd, imm20):
    return (_u(imm20, 20) << 12) | (rd << 7) | 0x17


ECALL = 0x00000073
EBREAK = 0x00100073


def cases(pc):
    """Yield (text in naken_asm syntax, expected 32-bit word, form) for the given load address."""
    regs = [0, 1, 2, 5, 10, 15, 16, 21, 31]
    imms = [0, 1, -1, 2, 5, 0x2aa, -0x2ab, 0x555, -0x556, 1023, 1024, 2047, -2048, -1024]
    out = []
    k = 0
    for m in sorted(R):
        for rd in regs:
            rs1 = regs[(k * 3 + 1) % len(regs)]
            rs2 = regs[(k * 5 + 2) % len(regs)]
            k += 1
            out.append(("%s x%d, x%d, x%d" % (m, rd, rs1, rs2), enc_r(m, rd, rs1, rs2), m + "/r"))
        out.append(("%s x31, x0, x16" % m, enc_r(m, 31, 0, 16), m + "/r"))
        out.append(("%s x0, x31, x1" % m, enc_r(m, 0, 31, 1), m + "/r"))
        out.append(("%s x1, x16, x31" % m, enc_r(m, 1, 16, 31), m + "/r"))
    for m in sorted(I_ALU):
        for imm in imms:
            rd = regs[k % len(regs)]
            rs1 = regs[(k * 7 + 3) % len(regs)]
            k += 1
            out.append(("%s x%d, x%d, %d" % (m, rd, rs1, imm), enc_i(m, rd, rs1, imm), m + "/i"))
    for m in sorted(SHIFT):
        for sh in (0, 1, 2, 15, 16, 21, 30, 31):
            rd = regs[k % len(regs)]
            rs1 = regs[(k * 7 + 3) % len(regs)]
            k += 1
            out.append(("%s x%d, x%d, %d" % (m, rd, rs1, sh), enc_shift(m, rd, rs1, sh), m + "/shift"))
    for m in sorted(LOAD):
        for imm in imms:
            rd = regs[k % len(regs)]
            rs1 = regs[(k * 7 + 3) % len(regs)]
            k += 1
            out.append(("%s x%d, %d(x%d)" % (m, rd, imm, rs1), enc_load(m, rd, rs1, imm), m + "/load"))
    for m in sorted(STORE):
        for imm in imms:
            rs2 = regs[k % len(regs)]
            rs1 = regs[(k * 7 + 3) % len(regs)]
            k += 1
            out.append(("%s x%d, %d(x%d)" % (m, rs2, imm, rs1), enc_store(m, rs2, rs1, imm), m + "/store"))
    for m in sorted(BRANCH):
        for off in (0, 4, -4, 8, 0x554, -0x558, 2044, 2048, -2048, -2052, 4092, 4094 & ~3, -4096, 0xaa8, 0x7fc, 0x800, 0xffc):
            if pc + off < 0:
                continue
            rs1 = regs[k % len(regs)]
            rs2 = regs[(k * 7 + 3) % len(regs)]
            k += 1
            out.append(("%s x%d, x%d, 0x%x" % (m, rs1, rs2, pc + off), enc_branch(m, rs1, rs2, off), m + "/branch"))
    for off in (0, 4, -4, 0x800, 0x7fc, -0x800, 0xffc, 0x1000, 0xff000, 0xffffc, -0x100000, 0x55554, -0x55558, 0x2aaa8, 0x800fc, 0x100):
        if pc + off < 0:
            continue
        rd = regs[k % len(regs)]
        k += 1
        out.append(("jal x%d, 0x%x" % (rd, pc + off), enc_jal(rd, off), "jal"))
    for imm in imms:
        rd = regs[k % len(regs)]
        rs1 = regs[(k * 7 + 3) % len(regs)]
        k += 1
        out.append(("jalr x%d, x%d, %d" % (rd, rs1, imm), enc_jalr(rd, rs1, imm), "jalr"))
    for imm in (0, 1, 603, 0x55555, 0xaaaaa, 0x7ffff, 0x80000, 0xfffff, 0x12345):
        rd = regs[k % len(regs)]
        k += 1
        out.append(("lui x%d, 0x%x" % (rd, imm), enc_lui(rd, imm), "lui"))
        out.append(("auipc x%d, 0x%x" % (rd, imm), enc_auipc(rd, imm), "auipc"))
    out.append(("ecall", ECALL, "ecall"))
    out.append(("ebreak", EBREAK, "ebreak"))
    return out
