"""Reference executor for one MSP430 (16-bit core) instruction, written from the
family user's guide (SLAU049 / SLAU144 chapter 3), independent of naken_asm.

step(regs, rd8) executes the instruction at regs[0] and returns a Result, or
raises Skip(reason) when the guide leaves the outcome undefined or the author
is not certain about it (those cases are masked, never guessed).
"""

FC, FZ, FN, FV = 0x001, 0x002, 0x004, 0x100
FLAGS = FC | FZ | FN | FV

TWO_OP = {4: "mov", 5: "add", 6: "addc", 7: "subc", 8: "sub", 9: "cmp", 10: "dadd", 11: "bit",
          12: "bic", 13: "bis", 14: "xor", 15: "and"}
ONE_OP = {0: "rrc", 1: "swpb", 2: "rra", 3: "sxt", 4: "push", 5: "call", 6: "reti"}
JUMPS = ["jne", "jeq", "jnc", "jc", "jn", "jge", "jl", "jmp"]
USES_CARRY = ("addc", "subc", "dadd", "rrc")


class Skip(Exception):
    pass


class Result(object):
    __slots__ = ("regs", "regmask", "srmask", "writes", "mn", "bw", "smode", "dmode", "cycles",
                 "byte_indirect", "autoinc")

    def __init__(self):
        self.regs = None          # 16 expected register values
        self.regmask = set()      # register numbers NOT compared
        self.srmask = 0xffff      # SR bits compared
        self.writes = {}          # addr -> byte, or None = written but value masked
        self.mn = None
        self.bw = 0
        self.smode = "-"
        self.dmode = "-"
        self.cycles = None        # None = not judged
        self.byte_indirect = False
        self.autoinc = None       # register auto-incremented by the source mode


def src_class(reg, As):
    if reg == 3:
        return "#cg%s" % ("0", "1", "2", "-1")[As]
    if reg == 2 and As == 2:
        return "#cg4"
    if reg == 2 and As == 3:
        return "#cg8"
    if As == 0:
        return {0: "PC", 1: "SP", 2: "SR"}.get(reg, "Rn")
    if As == 1:
        return {0: "sym", 2: "abs", 1: "x(SP)"}.get(reg, "x(Rn)")
    if As == 2:
        return {0: "@PC", 1: "@SP"}.get(reg, "@Rn")
    return {0: "#imm", 1: "@SP+"}.get(reg, "@Rn+")


def dst_class(reg, Ad):
    if Ad == 0:
        return {0: "PC", 1: "SP", 2: "SR", 3: "CG"}.get(reg, "Rn")
    return {0: "sym", 2: "abs", 1: "x(SP)", 3: "x(CG)"}.get(reg, "x(Rn)")


def is_cg(reg, As):
    return reg == 3 or (reg == 2 and As >= 2)


def bcd_ok(v, bw):
    n = 2 if bw else 4
    for i in range(n):
        if ((v >> (4 * i)) & 15) > 9:
            return False
    return True


def decode_info(op):
    """(mnemonic, bw, smode, dmode) or None for opcodes outside the 27 core instructions."""
    if op < 0x1000:
        return None
    if op < 0x1400:
        if op >= 0x1380:
            return None
        o = (op >> 7) & 7
        return (ONE_OP[o], (op >> 6) & 1, src_class(op & 15, (op >> 4) & 3), "-")
    if op < 0x2000:
        return None
    if op < 0x4000:
        return (JUMPS[(op >> 10) & 7], 0, "-", "-")
    return (TWO_OP[op >> 12], (op >> 6) & 1, src_class((op >> 8) & 15, (op >> 4) & 3), dst_class(op & 15, (op >> 7) & 1))


def step(regs, rd8):
    r = [x & 0xffff for x in regs]
    res = Result()

    def rd16(a):
        a &= 0xffff
        if a & 1:
            raise Skip("word-access-at-odd-address")
        return rd8(a) | (rd8((a + 1) & 0xffff) << 8)

    def rd(a, bw):
        return rd8(a & 0xffff) if bw else rd16(a)

    def wr(a, v, bw):
        a &= 0xffff
        if bw:
            res.writes[a] = v & 0xff
        else:
            if a & 1:
                raise Skip("word-access-at-odd-address")
            res.writes[a] = v & 0xff
            res.writes[(a + 1) & 0xffff] = (v >> 8) & 0xff

    pc = r[0]
    if pc & 1:
        raise Skip("odd-pc")
    op = rd16(pc)
    r[0] = (pc + 2) & 0xffff
    info = decode_info(op)
    if info is None:
        raise Skip("undefined-opcode")
    res.mn, res.bw, res.smode, res.dmode = info
    bw = res.bw
    M = 0xff if bw else 0xffff
    MSB = 0x80 if bw else 0x8000
    sr_in = r[2]

    def setflags(c=None, z=None, n=None, v=None):
        s = r[2]
        for bit, val in ((FC, c), (FZ, z), (FN, n), (FV, v)):
            if val is None:
                continue
            s = (s | bit) if val else (s & ~bit)
        r[2] = s & 0xffff

    def fetch_src(reg, As):
        """-> (value, loc) with loc = ("reg", n) | ("mem", ea) | None"""
        if reg == 3:
            return ((0, 1, 2, 0xffff)[As] & M, None)
        if reg == 2 and As >= 2:
            return ((4, 8)[As - 2], None)
        if As == 0:
            return (r[reg] & M, ("reg", reg))
        if As == 1:
            ext_addr = r[0]
            x = rd16(ext_addr)
            r[0] = (r[0] + 2) & 0xffff
            if reg == 0:
                base = ext_addr
            elif reg == 2:
                base = 0
            else:
                base = r[reg]
            ea = (base + x) & 0xffff
            return (rd(ea, bw), ("mem", ea))
        if reg == 0:
            if As == 2:
                raise Skip("@PC")
            v = rd16(r[0])
            r[0] = (r[0] + 2) & 0xffff
            return (v & M, None)
        ea = r[reg]
        if bw:
            res.byte_indirect = True
        v = rd(ea, bw)
        if As == 3:
            r[reg] = (r[reg] + (1 if (bw and reg != 1) else 2)) & 0xffff
            res.autoinc = reg
        return (v, ("mem", ea))

    # ---------------------------------------------------------------- jumps
    if 0x2000 <= op < 0x4000:
        cond = (op >> 10) & 7
        off = op & 0x3ff
        if off & 0x200:
            off -= 0x400
        c, z, n, v = [1 if sr_in & b else 0 for b in (FC, FZ, FN, FV)]
        take = (z == 0, z == 1, c == 0, c == 1, n == 1, (n ^ v) == 0, (n ^ v) == 1, True)[cond]
        if take:
            r[0] = (r[0] + 2 * off) & 0xffff
        res.regs = r
        res.cycles = 2
        return res

    # ---------------------------------------------------------------- format II
    if op < 0x1400:
        o = (op >> 7) & 7
        As = (op >> 4) & 3
        reg = op & 15
        mn = res.mn
        if mn == "reti":
            if op != 0x1300:
                raise Skip("reti-with-operand-bits")
            sp = r[1]
            if sp & 1:
                raise Skip("odd-sp")
            r[2] = rd16(sp)
            newpc = rd16(sp + 2)
            if newpc & 1:
                raise Skip("odd-pc-target")
            r[0] = newpc
            r[1] = (sp + 4) & 0xffff
            res.srmask = 0x01ff
            res.regs = r
            res.cycles = 5
            return res
        if bw and mn in ("swpb", "sxt", "call"):
            raise Skip(".b-on-" + mn)
        cg = is_cg(reg, As)
        imm = (reg == 0 and As == 3)
        if mn in ("rrc", "swpb", "rra", "sxt"):
            if cg or imm:
                raise Skip("format-II-with-constant-destination")
            if As == 0 and reg in (0, 1, 2):
                raise Skip("read-modify-write-on-PC/SP/SR")
            if reg == 0 and As == 2:
                raise Skip("@PC")
            src, loc = fetch_src(reg, As)
            if mn == "rrc":
                cin = 1 if sr_in & FC else 0
                result = ((src >> 1) | (MSB if cin else 0)) & M
                setflags(c=src & 1, z=result == 0, n=result & MSB, v=0)
            elif mn == "rra":
                result = ((src >> 1) | (src & MSB)) & M
                setflags(c=src & 1, z=result == 0, n=result & MSB, v=0)
            elif mn == "swpb":
                result = ((src >> 8) | (src << 8)) & 0xffff
            else:
                result = (src & 0xff) | (0xff00 if src & 0x80 else 0)
                setflags(c=result != 0, z=result == 0, n=result & 0x8000, v=0)
            if loc[0] == "reg":
                r[loc[1]] = result & M
            else:
                wr(loc[1], result, bw)
            res.regs = r
            if not res.byte_indirect:
                res.cycles = {0: 1, 1: 4, 2: 3, 3: 3}[As]
            return res
        # push / call
        if reg == 1:
            raise Skip(mn + "-with-SP-operand")
        if reg == 0 and As in (0, 2):
            raise Skip(mn + "-with-PC-operand")
        if mn == "call" and cg:
            raise Skip("call-constant-generator")
        src, loc = fetch_src(reg, As)
        if r[1] & 1:
            raise Skip("odd-sp")
        r[1] = (r[1] - 2) & 0xffff
        if mn == "push":
            if bw:
                res.writes[r[1]] = src & 0xff
                res.writes[(r[1] + 1) & 0xffff] = None
            else:
                wr(r[1], src, 0)
        else:
            if src & 1:
                raise Skip("odd-pc-target")
            wr(r[1], r[0], 0)
            r[0] = src
        res.regs = r
        return res

    # ---------------------------------------------------------------- format I
    o = op >> 12
    mn = res.mn
    sreg = (op >> 8) & 15
    dreg = op & 15
    Ad = (op >> 7) & 1
    As = (op >> 4) & 3
    cg = is_cg(sreg, As)
    if sreg == 0 and As == 0 and Ad == 1:
        raise Skip("PC-as-source-with-extension-words")
    if As == 3 and sreg == dreg and sreg != 0 and not cg:
        raise Skip("auto-increment-register-also-destination")
    if dreg == 3:
        if not (Ad == 0 and mn == "mov"):
            raise Skip("constant-generator-as-destination")
    if Ad == 0 and dreg == 0 and (mn != "mov" or bw):
        raise Skip("arithmetic-into-PC")
    if Ad == 0 and dreg == 2 and (mn not in ("mov", "bic", "bis") or bw):
        raise Skip("read-modify-write-on-SR")
    if Ad == 0 and dreg == 1 and bw:
        raise Skip("byte-operation-on-SP")
    src, loc = fetch_src(sreg, As)
    src &= M
    if Ad == 0:
        dloc = ("reg", dreg)
        dst = r[dreg] & M
        if mn != "mov" and dreg == 0:
            raise Skip("arithmetic-into-PC")
    else:
        if dreg == 3:
            raise Skip("constant-generator-as-destination")
        ext_addr = r[0]
        x = rd16(ext_addr)
        r[0] = (r[0] + 2) & 0xffff
        base = ext_addr if dreg == 0 else (0 if dreg == 2 else r[dreg])
        ea = (base + x) & 0xffff
        dloc = ("mem", ea)
        if not bw and ea & 1:
            raise Skip("word-access-at-odd-address")
        dst = rd(ea, bw) if mn != "mov" else 0
    write = True
    if mn == "mov":
        result = src
    elif mn in ("add", "addc", "sub", "subc", "cmp"):
        cin = 1 if sr_in & FC else 0
        if mn == "add":
            a, ci = src, 0
        elif mn == "addc":
            a, ci = src, cin
        elif mn == "subc":
            a, ci = (~src) & M, cin
        else:
            a, ci = (~src) & M, 1
        full = dst + a + ci
        result = full & M
        ov = (dst ^ result) & (a ^ result) & MSB
        setflags(c=full > M, z=result == 0, n=result & MSB, v=ov)
        if mn == "cmp":
            write = False
    elif mn == "dadd":
        if not (bcd_ok(src, bw) and bcd_ok(dst, bw)):
            raise Skip("dadd-on-non-BCD-operands")
        carry = 1 if sr_in & FC else 0
        result = 0
        for i in range(2 if bw else 4):
            d = ((src >> (4 * i)) & 15) + ((dst >> (4 * i)) & 15) + carry
            carry = 1 if d > 9 else 0
            if carry:
                d -= 10
            result |= d << (4 * i)
        setflags(c=carry, z=result == 0, n=result & MSB)
        res.srmask &= ~FV
    elif mn == "bit":
        result = src & dst
        setflags(c=result != 0, z=result == 0, n=result & MSB, v=0)
        write = False
    elif mn == "bic":
        result = dst & ~src & M
    elif mn == "bis":
        result = dst | src
    elif mn == "xor":
        result = src ^ dst
        setflags(c=result != 0, z=result == 0, n=result & MSB, v=(src & MSB) and (dst & MSB))
    else:
        result = src & dst
        setflags(c=result != 0, z=result == 0, n=result & MSB, v=0)
    if write:
        if dloc[0] == "reg":
            if dreg == 3:
                res.regmask.add(3)
            elif dreg == 0:
                if result & 1:
                    raise Skip("odd-pc-target")
                r[0] = result
            elif dreg == 1:
                if result & 1:
                    raise Skip("odd-sp")
                r[1] = result
            elif dreg == 2:
                r[2] = result
                res.srmask = 0x01ff
            else:
                r[dreg] = result & M
        else:
            wr(dloc[1], result, bw)
    res.regs = r
    # cycles: only the table entries that are the same in every revision of the guide
    if not res.byte_indirect and not (Ad == 0 and dreg == 0):
        eff = 0 if cg else As
        if Ad == 0:
            res.cycles = {0: 1, 1: 3, 2: 2, 3: 2}[eff]
        elif mn not in ("mov", "bit", "cmp"):
            res.cycles = {0: 4, 1: 6, 2: 5, 3: 5}[eff]
    return res
