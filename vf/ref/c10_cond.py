"""Reference interpreter for C10: the documented `.if` condition grammar and the
block structure of .if/.ifdef/.ifndef/.else/.endif.

Condition grammar (C conventions, the only ones the documentation alludes to:
"C style .define, .ifdef, .if defined()"):

    cond   := and ( '||' and )*
    and    := cmp ( '&&' cmp )*
    cmp    := unary [ ('=='|'<'|'>'|'<='|'>=') unary ]      (no comparison chains)
    unary  := '!'* atom
    atom   := NUMBER | DEFINE-NAME | SYMBOL-NAME | 'defined' '(' NAME ')' | '(' cond ')'

A condition is represented as a *flat* list  [operand, op, operand, op, ...] with
operand :=
    ("num", v)                 decimal literal
    ("def", name, v)           a .define'd name with numeric value v
    ("sym", name, v)           a label whose address is v
    ("dfn", name, bool)        defined(name)
    ("not", operand)
    ("par", flat-list)
Comparison / logical operators and '!' yield 0 or 1.  Chained comparisons
without parentheses (`1 < 2 < 3`) are not in the domain (Ambiguous).
"""

CMP = ("==", "<", ">", "<=", ">=")
OPS = CMP + ("&&", "||")
PREC = {"||": 0, "&&": 1}
for _o in CMP:
    PREC[_o] = 2
CLASS = {"||": "|", "&&": "&"}
for _o in CMP:
    CLASS[_o] = "c"


class Ambiguous(Exception):
    pass


# ------------------------------------------------------------------ conditions

def render_operand(o):
    k = o[0]
    if k == "num":
        return str(o[1])
    if k in ("def", "sym"):
        return o[1]
    if k == "dfn":
        return "defined(%s)" % o[1]
    if k == "not":
        return "!" + render_operand(o[1])
    if k == "par":
        return "(" + render(o[1]) + ")"
    raise ValueError(o)


def render(items):
    return " ".join(render_operand(x) if isinstance(x, (tuple, list)) else x for x in items)


def eval_operand(o):
    k = o[0]
    if k == "num":
        return o[1]
    if k in ("def", "sym"):
        return o[2]
    if k == "dfn":
        return 1 if o[2] else 0
    if k == "not":
        inner = tuple(o[1])
        v = eval_operand(inner)
        if inner[0] == "not" and eval_operand(tuple(inner[1])) not in (0, 1):
            # `!!2`: 1 in C; the tool lets the two '!' cancel (2).  Not judged.
            raise Ambiguous("double negation of a non-boolean")
        return 0 if v != 0 else 1
    if k == "par":
        return eval_flat(o[1])
    raise ValueError(o)


def _split(items, op):
    parts, cur = [], []
    for x in items:
        if x == op:
            parts.append(cur)
            cur = []
        else:
            cur.append(x)
    parts.append(cur)
    return parts


def eval_flat(items):
    items = [tuple(x) if isinstance(x, list) else x for x in items]
    ors = _split(items, "||")
    if len(ors) > 1:
        return 1 if any([eval_flat(p) != 0 for p in ors]) else 0
    ands = _split(items, "&&")
    if len(ands) > 1:
        return 1 if all([eval_flat(p) != 0 for p in ands]) else 0
    if len(items) == 1:
        return eval_operand(items[0])
    if len(items) == 3:
        a, op, b = eval_operand(items[0]), items[1], eval_operand(items[2])
        return int({"==": a == b, "<": a < b, ">": a > b, "<=": a <= b, ">=": a >= b}[op])
    raise Ambiguous("comparison chain")


def valid(items):
    try:
        eval_flat(items)
        return True
    except Ambiguous:
        return False


def skel_operand(o, exact):
    k = o[0]
    if k in ("num", "def", "sym"):
        return "a"
    if k == "dfn":
        return "d"
    if k == "not":
        return "!" + skel_operand(o[1], exact)
    return "(" + skeleton(o[1], exact) + ")"


def skeleton(items, exact=False):
    """operator skeleton: atoms erased; exact=False folds the five comparison
    operators into 'c' (precedence-class skeleton)."""
    out = []
    for x in items:
        if isinstance(x, (tuple, list)):
            out.append(skel_operand(tuple(x), exact))
        else:
            out.append(x if exact else CLASS[x])
    return "".join(out)


def all_ops(items):
    s = set()
    for x in items:
        if isinstance(x, (tuple, list)):
            x = tuple(x)
            if x[0] == "not":
                s |= all_ops([x[1]])
            elif x[0] == "par":
                s |= all_ops(x[1])
        else:
            s.add(x)
    return s


def descents(items):
    """set of 'hi>lo' class pairs where, inside one parenthesis level, an operator
    is followed by one of lower precedence (e.g. `a == b && c` -> {'c&'})."""
    s = set()
    ops = [x for x in items if not isinstance(x, (tuple, list))]
    for a, b in zip(ops, ops[1:]):
        if PREC[a] > PREC[b]:
            s.add(CLASS[a] + CLASS[b])
    for x in items:
        if isinstance(x, (tuple, list)):
            x = tuple(x)
            while x[0] == "not":
                x = tuple(x[1])
            if x[0] == "par":
                s |= descents(x[1])
    return s


def paren_groups(items):
    """classes of the operators above '||' that occur directly inside a parenthesis group."""
    s = set()
    for x in items:
        if isinstance(x, (tuple, list)):
            x = tuple(x)
            while x[0] == "not":
                x = tuple(x[1])
            if x[0] == "par":
                for y in x[1]:
                    if not isinstance(y, (tuple, list)) and PREC[y] > 0:
                        s.add(CLASS[y])
                s |= paren_groups(x[1])
    return s


# ------------------------------------------------------------------ structures
#
# program  := [item]
# item     := ("m", id)                              .db id  (marker)
#           | ("blk", kind, cond, then, else|None)   kind in if/ifdef/ifndef
#           | ("lab", name) | ("define", name) | ("macro", name, id) | ("call", name, id)
#           | ("junk", n) | ("comment", n) | ("string", n)
#   cond for kind "if":   {"text": str, "truth": bool}
#   cond for ifdef/ifndef: {"name": str}   (truth decided by the environment)

JUNK = ["@@ ) ( 12 foo,, endif else", "mov.w r1 r2 r3 ++ -- ]]", "endif", "else 1 2 3", "if 1", "ifdef X ) )",
        "&& || == <= >= !", "12 34 0x5 'a' \"s\"", ": : ,", "endm endr", ". 5", "foo: bar: 1+"]
COMMENTS = ["; .endif", "; .else", "// .endif .else", "; .if 1", "/* .endif */", "; #endif"]
STRINGS = ['.ascii ".endif"', '.ascii ".else"', '.db ".if 1", 0', '.ascii "#endif"', ".db ';'"]


def render_items(items, out):
    for it in items:
        k = it[0]
        if k == "m":
            out.append(".db %d" % it[1])
        elif k == "blk":
            _, kind, cond, th, el = it
            if kind == "if":
                out.append(".if " + cond["text"])
            else:
                out.append(".%s %s" % (kind, cond["name"]))
            render_items(th, out)
            if el is not None:
                out.append(".else")
                render_items(el, out)
            out.append(".endif")
        elif k == "lab":
            out.append(it[1] + ":")
        elif k == "define":
            out.append(".define %s 1" % it[1])
        elif k == "macro":
            out.append(".macro " + it[1])
            out.append(".db %d" % it[2])
            out.append(".endm")
        elif k == "call":
            out.append(it[1])
        elif k == "junk":
            out.append(JUNK[it[1] % len(JUNK)])
        elif k == "comment":
            out.append(COMMENTS[it[1] % len(COMMENTS)])
        elif k == "string":
            out.append(STRINGS[it[1] % len(STRINGS)])
        else:
            raise ValueError(it)
    return out


def render_program(items):
    return "\n".join(render_items(items, [])) + "\n"


def block_truth(it, env):
    _, kind, cond, th, el = it
    if kind == "if":
        return bool(cond["truth"])
    d = cond["name"] in env
    return d if kind == "ifdef" else not d


def expected_markers(items, env=None, macros=None, out=None):
    """Walk the program the way the documentation says it is assembled; return the
    marker sequence.  env = names defined so far (labels, defines, macros)."""
    if env is None:
        env, macros, out = set(), {}, []
    for it in items:
        k = it[0]
        if k == "m":
            out.append(it[1])
        elif k == "blk":
            t = block_truth(it, env)
            body = it[3] if t else it[4]
            if body is not None:
                expected_markers(body, env, macros, out)
        elif k in ("lab", "define"):
            env.add(it[1])
        elif k == "macro":
            env.add(it[1])
            macros[it[1]] = it[2]
        elif k == "call":
            out.append(macros[it[1]])
        elif k in ("junk", "comment", "string"):
            raise ValueError("filler in a taken region")
    return out


def nest_skeleton(items, skipped=False):
    """nesting skeleton: markers/fillers erased; kind, selected branch (T/F; erased
    inside skipped regions, where it is never evaluated) and else-presence kept."""
    out = []
    for it in items:
        if it[0] != "blk":
            continue
        _, kind, cond, th, el = it
        t = "" if skipped else ("T" if cond.get("_t") else "F")
        s = kind + t + "[" + nest_skeleton(th, skipped or not cond.get("_t"))
        if el is not None:
            s += "|" + nest_skeleton(el, skipped or bool(cond.get("_t")))
        out.append(s + "]")
    return "".join(out)


def annotate(items, env=None, skipped=False):
    """store the truth of every block under the reference semantics in cond['_t']
    (needed by nest_skeleton); blocks inside skipped regions get _t=None."""
    if env is None:
        env = set()
    for it in items:
        k = it[0]
        if k == "blk":
            if skipped:
                it[2]["_t"] = None
                annotate(it[3], env, True)
                if it[4] is not None:
                    annotate(it[4], env, True)
            else:
                t = block_truth(it, env)
                it[2]["_t"] = t
                annotate(it[3], env, not t)
                if it[4] is not None:
                    annotate(it[4], env, t)
        elif k in ("lab", "define", "macro") and not skipped:
            env.add(it[1])
    return items
