"""Reference model for C05: data / location directives -> image.
Written from the statement and docs/directives.md, not from the code.

A program is a list of statements:
  ("org", n)                         n in address units
  ("db", [items])  ("ascii", [items]) ("dc8", ...)   items: ("num", v) | ("str", bytes, source text) | ("sym", name) | ("pc",)
  ("asciiz", [items])
  ("dw", [items]) ("dc16", ...)      16-bit
  ("dl"|"dc32"|"dd", [items])        32-bit
  ("dc64"|"dq", [items])             64-bit
  ("resb", n) ("resw", n)
  ("align", bits) ("align_bytes", n)
  ("data_fill", value, count)
  ("binfile", name, bytes)
  ("big_endian",) ("little_endian",)
  ("label", name)
"""


class Rejected(Exception):
    pass


def model(stmts, bpa, big_endian):
    """-> (image {byte addr: value}, labels {name: value in address units}).
    Raises Rejected when the statement's rules demand an error."""
    # pass 1: label values
    labels = {}
    for final in (False, True):
        img = {}
        pc = 0
        big = big_endian
        for st in stmts:
            k = st[0]
            if k == "org":
                pc = st[1] * bpa
            elif k == "label":
                if not final:
                    labels[st[1]] = pc // bpa
            elif k in ("big_endian",):
                big = True
            elif k in ("little_endian",):
                big = False
            elif k in ("resb", "resw"):
                pc += st[1] * (1 if k == "resb" else 2)
            elif k == "align":
                n = st[1] // 8
                while pc % n:
                    pc += 1
            elif k == "align_bytes":
                while pc % st[1]:
                    pc += 1
            elif k == "data_fill":
                v, c = st[1], st[2]
                if v < -128 or v > 255:
                    raise Rejected("data_fill value")
                if c < 1:
                    raise Rejected("data_fill count")
                for _ in range(c):
                    img[pc] = v & 0xff
                    pc += 1
            elif k == "binfile":
                for b in st[2]:
                    img[pc] = b
                    pc += 1
            else:
                width = {"db": 1, "dc8": 1, "ascii": 1, "asciiz": 1, "dw": 2, "dc16": 2, "dl": 4, "dc32": 4, "dd": 4,
                         "dc64": 8, "dq": 8}[k]
                for it in st[1]:
                    if it[0] == "str":
                        if width != 1:
                            raise Rejected("string in wide directive")
                        for b in it[1]:
                            img[pc] = b
                            pc += 1
                        if k == "asciiz":
                            img[pc] = 0
                            pc += 1
                        continue
                    if it[0] == "num":
                        v = it[1]
                    elif it[0] == "sym":
                        v = labels.get(it[1], 0)
                    elif it[0] == "pc":
                        v = pc // bpa
                    else:
                        raise ValueError(it)
                    if width == 1 and (v < -128 or v > 255):
                        raise Rejected(".db range")
                    if width == 2 and (v < -32768 or v > 65535):
                        raise Rejected(".dw range")
                    v &= (1 << (8 * width)) - 1
                    bs = v.to_bytes(width, "big" if big else "little")
                    for b in bs:
                        img[pc] = b
                        pc += 1
    return img, labels


ESC = {0x0a: "\\n", 0x0d: "\\r", 0x09: "\\t", 0x22: '\\"', 0x5c: "\\\\", 0x00: "\\0"}


def render_item(it):
    if it[0] == "num":
        return it[2] if len(it) > 2 else str(it[1])
    if it[0] == "str":
        return '"' + it[2] + '"'
    if it[0] == "sym":
        return it[1]
    if it[0] == "pc":
        return "$"
    raise ValueError(it)


def render(stmts, cpu, prefix="."):
    out = [".%s" % cpu] if cpu else []
    for st in stmts:
        k = st[0]
        if k == "org":
            out.append(".org 0x%x" % st[1])
        elif k == "label":
            out.append("%s:" % st[1])
        elif k in ("big_endian", "little_endian"):
            out.append("." + k)
        elif k in ("resb", "resw"):
            out.append("  .%s %d" % (k, st[1]))
        elif k == "align":
            out.append("  .align %d" % st[1])
        elif k == "align_bytes":
            out.append("  .align_bytes %d" % st[1])
        elif k == "data_fill":
            out.append("  .data_fill %d, %d" % (st[1], st[2]))
        elif k == "binfile":
            out.append('  .binfile "%s"' % st[1])
        else:
            out.append("  .%s %s" % (k, ", ".join(render_item(i) for i in st[1])))
    return "\n".join(out) + "\n"


def make_string(rng):
    n = rng.randint(0, 12)
    bs = bytearray()
    src = ""
    for _ in range(n):
        r = rng.random()
        if r < 0.2:
            b = rng.choice([0x0a, 0x0d, 0x09, 0x22, 0x5c, 0x00])
            # a backslash must not be followed by a literal '0' (that spells \0)
            bs.append(b)
            src += ESC[b]
        else:
            while True:
                b = rng.choice(b"abcxyzABCXYZ0123456789 !#$%&()*+,-./:;<=>?@[]^_{|}~")
                if b == ord("0") and bs and bs[-1] == 0x5c:
                    continue
                break
            bs.append(b)
            src += chr(b)
    return ("str", list(bs), src)
